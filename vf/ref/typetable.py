"""The XLSForm question-type table, restated from the XLSForm reference
(https://xlsform.org/en/ref-table/ and the ODK XForms spec) -- deliberately *not*
imported from pyxform.question_type_dictionary.

TYPES[type] = (control tag or None, bind type, extra bind attrs, extra control attrs)
"""

PRELOAD = lambda kind, param: {"jr:preload": kind, "jr:preloadParams": param}  # noqa: E731

TYPES = {
    "text": ("input", "string", {}, {}),
    "string": ("input", "string", {}, {}),
    "integer": ("input", "int", {}, {}),
    "int": ("input", "int", {}, {}),
    # a legacy type with a built-in constraint; a constraint cell on the row replaces it
    "percentage": ("input", "int", {"constraint": "0 <= . and . <= 100"}, {}),
    "decimal": ("input", "decimal", {}, {}),
    "note": ("input", "string", {"readonly": "true()"}, {}),
    "date": ("input", "date", {}, {}),
    "time": ("input", "time", {}, {}),
    "dateTime": ("input", "dateTime", {}, {}),
    "datetime": ("input", "dateTime", {}, {}),
    "geopoint": ("input", "geopoint", {}, {}),
    "geotrace": ("input", "geotrace", {}, {}),
    "geoshape": ("input", "geoshape", {}, {}),
    "barcode": ("input", "barcode", {}, {}),
    "acknowledge": ("trigger", "string", {}, {}),
    "trigger": ("trigger", None, {}, {}),
    "image": ("upload", "binary", {}, {"mediatype": "image/*"}),
    "photo": ("upload", "binary", {}, {"mediatype": "image/*"}),
    "audio": ("upload", "binary", {}, {"mediatype": "audio/*"}),
    "video": ("upload", "binary", {}, {"mediatype": "video/*"}),
    "file": ("upload", "binary", {}, {"mediatype": "application/*"}),
    "osm": ("upload", "binary", {}, {"mediatype": "osm/*"}),
    "range": ("range", "int", {}, {}),
    "calculate": (None, "string", {}, {}),
    "hidden": (None, "string", {}, {}),
    # metadata (preloaded, never visible)
    "start": (None, "dateTime", PRELOAD("timestamp", "start"), {}),
    "end": (None, "dateTime", PRELOAD("timestamp", "end"), {}),
    "today": (None, "date", PRELOAD("date", "today"), {}),
    "deviceid": (None, "string", PRELOAD("property", "deviceid"), {}),
    "imei": (None, "string", PRELOAD("property", "deviceid"), {}),
    "phonenumber": (None, "string", PRELOAD("property", "phonenumber"), {}),
    "username": (None, "string", PRELOAD("property", "username"), {}),
    "email": (None, "string", PRELOAD("property", "email"), {}),
    "simserial": (None, "string", PRELOAD("property", "simserial"), {}),
    "subscriberid": (None, "string", PRELOAD("property", "subscriberid"), {}),
    "audit": (None, "binary", {}, {}),
    # older spellings of the same metadata rows (still in the type table): each names the preload its words say
    "start time": (None, "dateTime", PRELOAD("timestamp", "start"), {}),
    "get start time": (None, "dateTime", PRELOAD("timestamp", "start"), {}),
    "end time": (None, "dateTime", PRELOAD("timestamp", "end"), {}),
    "get end time": (None, "dateTime", PRELOAD("timestamp", "end"), {}),
    "get today": (None, "date", PRELOAD("date", "today"), {}),
    "device id": (None, "string", PRELOAD("property", "deviceid"), {}),
    "get device id": (None, "string", PRELOAD("property", "deviceid"), {}),
    "get phone number": (None, "string", PRELOAD("property", "phonenumber"), {}),
    "sim id": (None, "string", PRELOAD("property", "simserial"), {}),
    "get sim id": (None, "string", PRELOAD("property", "simserial"), {}),
    "subscriber id": (None, "string", PRELOAD("property", "subscriberid"), {}),
    "get subscriber id": (None, "string", PRELOAD("property", "subscriberid"), {}),
    "uri:deviceid": (None, "string", PRELOAD("property", "uri:deviceid"), {}),
    "uri:username": (None, "string", PRELOAD("property", "uri:username"), {}),
    "uri:email": (None, "string", PRELOAD("property", "uri:email"), {}),
    "uri:phonenumber": (None, "string", PRELOAD("property", "uri:phonenumber"), {}),
    "uri:simserial": (None, "string", PRELOAD("property", "uri:simserial"), {}),
    "uri:subscriberid": (None, "string", PRELOAD("property", "uri:subscriberid"), {}),
    # actions
    "start-geopoint": (None, "geopoint", {}, {}),
    "background-audio": (None, "binary", {}, {}),
    "background-geopoint": (None, "geopoint", {}, {}),
}

SELECTS = {
    "select_one": ("select1", "string"),
    "select_multiple": ("select", "string"),
    "rank": ("odk:rank", "odk:rank"),
    "select_one_from_file": ("select1", "string"),
    "select_multiple_from_file": ("select", "string"),
    "select_one_external": ("input", "string"),
}

# types that never get a body control
BODYLESS = {t for t, v in TYPES.items() if v[0] is None}
EXTERNAL_INSTANCE_TYPES = {"xml-external", "csv-external"}
# types whose rows may legally have no label/hint
LABEL_OPTIONAL = BODYLESS | EXTERNAL_INSTANCE_TYPES
DEPRECATED_META = {"simserial", "subscriberid"}


def parse_type(cell: str):
    """canonical type cell -> (base, list_name|None, or_other: bool)."""
    parts = cell.split()
    base = parts[0]
    if base in SELECTS:
        lst = parts[1] if len(parts) > 1 else None
        other = len(parts) > 2
        return base, lst, other
    if base == "osm" and len(parts) > 1:
        return base, parts[1], False
    return cell, None, False


def type_info(cell: str):
    base, lst, other = parse_type(cell)
    if base in SELECTS:
        tag, btype = SELECTS[base]
        return tag, btype, {}, {}
    return TYPES[base]
