#!/opt/veriftools/pyvenv/bin/python
import json, sys, glob, jsonschema
schema = json.load(open("/root/.vp/EVIDENCE.schema.json"))
bad = 0
for f in sorted(glob.glob("/verif/evidence/*.json")):
    try:
        jsonschema.validate(json.load(open(f)), schema); print("ok ", f)
    except Exception as e:
        bad += 1; print("BAD", f, str(e)[:200])
sys.exit(bad)
