"""C07 -- every itext reference resolves in every language."""

from __future__ import annotations

import re

from hypothesis import strategies as st

from vf import common, gen, model, xform
from vf.ref import expect
from vf.runner import Outcome, crash_sig
from vf.xform import XF, q

ID = "C07"
LEVEL = "exploration"
RULE = ("Hypothesis-generated forms (i18n profile: 1-4 languages, sparse per-row x per-column x per-language cells for label/hint/"
        "guidance/messages/media on questions, groups, repeats and choices; choice lists shared by several selects and by search() "
        "selects; choices without label; default_language equal to one of the languages, to none, or unset); non-trivial = accepted "
        "form with >=2 languages and >=1 hole, or media/guidance present; distinct by SHA-1 of the case JSON")
ASSUMPTIONS = ["jr:itext('id') occurrences are collected from every attribute of the parsed document and itextId elements from every secondary instance"]
BUDGET = {"quick": 12000, "thorough": 400000}

ITEXT_ANY = re.compile(r"jr:itext\('([^']*)'\)")


@st.composite
def _cases(draw):
    # lang_pool=7 adds 'English' and 'French' beside 'English (en)' / 'French (fr)': the same name with and without a code
    prof = dict(gen.PROFILES["i18n"], lang_pool=9, p_osm=0.1, p_osm_media=0.4, p_reuse_names=0.3, p_search_randomize=1, p_randomize=0.35, p_noapp=0.06, p_group_media=0.1, p_search=0.12, p_choice_nolabel=0.08, p_or_other=0.1, p_table_list=0.06, p_choice_label_ref=0.1,
                settings="some", p_group=0.2, p_repeat=0.15, p_choice_filter=0.2, p_extra_cols=0.4,
                # extra choices columns named like elements the converter generates itself
                extra_col_names=["itextId", "itext", "label", "value", "name_", "item", "id"], p_prefixed_names=0.08)
    g = gen.G(draw, prof)
    form = gen.build_form(draw, prof, g=g)
    if g.p("_", 0.1):
        gen.respell_language(g, form)
    return {"form": form}


def strategy(tier):
    return _cases()


def check_itext(out: Outcome, v: xform.XFormView, form):
    trans, order = v.translations()
    out.checked("C07.lang-unique")
    langs = [l for l, _ in order]
    if len(langs) != len({" ".join(l.split()) for l in langs}):      # (header tokens are cleaned: spellings that differ in white space are one language)
        out.fail("C07.lang-unique", "", f"translation languages {langs}")
    out.checked("C07.id-unique")
    for lang, d in trans.items():
        dup = [i for i, els in d.items() if len(els) > 1]
        if dup:
            out.fail("C07.id-unique", "", f"language {lang}: text id(s) {dup[:3]} appear twice")
    out.checked("C07.same-ids")
    idsets = {lang: set(d) for lang, d in trans.items()}
    if len({frozenset(s) for s in idsets.values()}) > 1:
        allids = set().union(*idsets.values())
        miss = {lang: sorted(allids - s)[:3] for lang, s in idsets.items() if allids - s}
        out.fail("C07.same-ids", _idkind(next(iter(miss.values()))[0]), f"translations differ in text ids; missing: {miss}")
    # references
    used = []
    for el in v.root.iter():
        if not isinstance(el.tag, str):
            continue
        for k, val in el.attrib.items():
            for m in ITEXT_ANY.finditer(val):
                used.append((m.group(1), f"<{xform.local(el)} {xform.attr_name(k)}>", xform.local(el)))
    for inst in v.instances[1:]:
        for it in inst.iter(q(XF, "itextId")):
            used.append((it.text or "", f"itextId in instance {inst.get('id')}", "itextId"))
    for tid, where, kind in used:
        out.checked("C07.resolves")
        if not trans:
            out.fail("C07.resolves", "no-itext-block:" + kind, f"{where} refers to {tid!r} but the form has no itext")
            continue
        missing = [lang for lang, d in trans.items() if tid not in d]
        if missing:
            out.fail("C07.resolves", f"{kind}:{_idkind(tid)}", f"{where} refers to text id {tid!r}, absent from translation(s) {missing}")
    out.checked("C07.default-flag")
    dlang = expect.default_language(form)
    flagged = [l for l, d in order if d is not None]
    if dlang in langs:
        if flagged != [dlang]:
            out.fail("C07.default-flag", "", f"default language {dlang!r} is a translation but default flags are on {flagged}")
    elif len(flagged) > 1:
        out.fail("C07.default-flag", "many", f"default flags on {flagged}")
    return trans, langs


def _idkind(tid):
    if tid.startswith("/"):
        return "path:" + tid.rsplit(":", 1)[-1]
    return "choice"


def evaluate(case) -> Outcome:
    out = Outcome()
    form = case["form"]
    status, res = common.run_form(form)
    if status == "crash":
        out.label("outcome:crash:" + crash_sig(res))
        return out
    if status == "rejected":
        out.label("outcome:rejected:" + common.err_class(res))
        return out
    out.label("outcome:accepted")
    try:
        v = xform.XFormView(res.xform)
    except xform.IllFormed:
        out.label("unparseable (C01's business)")
        return out
    trans, langs = check_itext(out, v, form)
    cells = [k for n, _ in model.walk(form["nodes"]) for k in n["c"]] + [k for lst in form.get("lists", []) for r in lst["rows"] for k in r]
    media = any(k.split("::")[0] in ("image", "audio", "video", "big-image", "guidance_hint") for k in cells)
    out.nontrivial = len(langs) >= 2 or media
    out.label(f"translations:{min(len(langs), 4)}")
    if any("search(" in (n["c"].get("appearance") or "") for n, _ in model.walk(form["nodes"])):
        out.label("search()")
    return out
