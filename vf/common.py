"""Shared helpers for property modules: running the code under test."""

from __future__ import annotations

import copy
import re

from pyxform.errors import PyXFormError
from pyxform.xls2xform import convert

from vf import model

XML_ILLEGAL_RE = re.compile("[\x00-\x08\x0b\x0c\x0e-\x1f￾￿\ud800-\udfff]")


def run_workbook(wb, pretty=False, **args):
    """-> ("ok", ConvertResult) | ("rejected", PyXFormError) | ("crash", Exception)"""
    try:
        return "ok", convert(copy.deepcopy(wb), pretty_print=pretty, **args)
    except PyXFormError as e:
        return "rejected", e
    except Exception as e:  # noqa: BLE001  -- any other type is reported by the caller
        return "crash", e


def run_form(form, pretty=False, with_headers=True):
    args = {k: v for k, v in form.get("args", {}).items() if k in ("form_name", "default_language")}
    if form.get("carrier"):
        data = spreadsheet_of(form, form["carrier"])
        if data is not None:
            return run_workbook(data, pretty=pretty, file_type="." + form["carrier"]["fmt"], **args)
    wb = model.to_workbook_dict(form, with_headers=with_headers)
    return run_workbook(wb, pretty=pretty, **args)


def spreadsheet_of(form, spec):
    """the same workbook as an .xlsx / .xls file the way people keep them: header-less spacer columns between the headed ones and
    number-looking cells typed as numbers (C12's equivalences).  None when a spreadsheet cannot carry the cells as they are
    (untrimmed text, non-breaking spaces, control characters): the caller falls back to the dict input."""
    import random

    from vf import render
    from vf.props import c12

    r0 = random.Random(f"carrier:{spec.get('seed', 0)}")
    grids = []
    for name, head, rows in render.sheets_of(form):
        for r in rows:
            for v in r.values():
                if not isinstance(v, str) or v != v.strip() or not v or "\xa0" in v or XML_ILLEGAL_RE.search(v) or len(v) > 30000:
                    return None
        if any(h != h.strip() or "\xa0" in h for h in head):
            return None
        cols = list(head)
        if len(cols) > 1:
            for _ in range(r0.choice([0, 1, 1, 2])):
                cols.insert(r0.randrange(1, len(cols) + 1), None)
        if spec["fmt"] == "csv":
            csv_cols = csv_cols if "csv_cols" in locals() else {}
            csv_cols[name] = cols
            continue
        g = [[h for h in cols]]
        # a run of blank rows between two rows (authors separate sections with them; a sheet only ends after more than 60)
        # (generated helper names of table-list groups carry their row number: those forms keep their rows where they are; blank rows
        # the form already has count towards the run)
        movable = name == "choices" or (name == "survey" and not any("table-list" in str(v) for r in rows for v in r.values()))
        empties = sum(1 for r in rows if not r)
        gap_at, gap_len = (r0.randrange(1, len(rows)), min(r0.choice([1, 3, 21, 45, 60]), 60 - empties)) if len(rows) > 1 and movable and r0.random() < 0.3 else (None, 0)
        for ri, r in enumerate(rows):
            if ri == gap_at:
                g.extend([None] * len(cols) for _ in range(gap_len))
            line = []
            for h in cols:
                v = r.get(h) if h is not None else None
                if v is not None and h != "type" and r0.random() < 0.6:
                    tv, kind = c12.typed_value(r0, v)
                    if kind in ("typed-int", "typed-intfloat") or (kind == "typed-float" and not float(tv).is_integer()):
                        v = tv
                line.append(v)
            g.append(line)
        grids.append((name, g))
    if spec["fmt"] == "csv":
        # a CSV export of the same sheets, spacer columns included (read by position, like every other container)
        return render.csv_of_sheets(render.sheets_of(form), cols=locals().get("csv_cols", {})).encode("utf-8")
    try:
        hidden = [n for n, _ in grids if n.lower() != "survey" and r0.random() < 0.25]
        return c12.grids_to_xlsx(grids, hidden=hidden) if spec["fmt"] == "xlsx" else c12.grids_to_xls(grids)
    except Exception:  # noqa: BLE001  (the writer refuses the text: not a pyxform matter)
        return None


def err_class(e: BaseException) -> str:
    """normalised error message (names/numbers removed) for labels"""
    s = str(e)
    s = re.sub(r"'[^']*'|\"[^\"]*\"|\$\{[^}]*\}|\d+", "_", s)
    return s[:70]


def all_strings(x):
    if isinstance(x, str):
        yield x
    elif isinstance(x, dict):
        for k, v in x.items():
            yield k
            yield from all_strings(v)
    elif isinstance(x, list):
        for v in x:
            yield from all_strings(v)


CLEAN = [True]   # the documented settings switch clean_text_values=no turns every normalisation off (set by the check that generates it)


def survey_clean(s: str) -> str:
    """documented normalisation of survey-sheet cells: strip, collapse runs of spaces, straighten smart quotes"""
    if not CLEAN[0]:
        return s
    s = re.sub(r"( )+", " ", s.strip())
    return smart(s)


def smart(s: str) -> str:
    if not CLEAN[0]:
        return s
    return smart_always(s)


def smart_always(s: str) -> str:
    """(the settings sheet is cleaned whatever clean_text_values says: the switch itself is read from it)"""
    return s.replace("‘", "'").replace("’", "'").replace("“", '"').replace("”", '"')


LEGACY_TYPES = {"image": ["add image prompt", "add photo prompt", "photo"], "audio": ["add audio prompt"], "video": ["add video prompt"],
                "file": ["add file prompt"], "deviceid": ["imei"]}


def legacy_types(form):
    """the same form with the documented legacy spellings of its type cells ('add image prompt' for image, ...): C13 says they are
    interchangeable, so a check may convert this spelling and keep judging by the canonical one"""
    from vf import model
    twin = model.clone(form)
    i = 0
    for n, _ in model.walk(twin["nodes"]):
        t = n["c"].get("type")
        if n["k"] == "q" and t in LEGACY_TYPES:
            n["c"]["type"] = LEGACY_TYPES[t][i % len(LEGACY_TYPES[t])]
            i += 1
    return twin if i else form


def clean_languages(form):
    """the same form with every language name in a column header (and in default_language) in its cleaned spelling -- runs of white
    space, tabs and non-breaking spaces are one space (C07/C13 establish that the spellings are the same language)"""
    from vf import model
    twin = model.clone(form)

    def fix(cells):
        for k in [k for k in cells if "::" in k]:
            b, lang = k.split("::", 1)
            nk = b + "::" + " ".join(lang.split())
            if nk != k and nk not in cells:
                cells[nk] = cells.pop(k)
    for n, _ in model.walk(twin["nodes"]):
        fix(n["c"])
    for lst in twin.get("lists", []):
        for r in lst["rows"]:
            fix(r)
    for key in ("osm", "ext"):
        for r in twin.get(key, []) or []:
            if isinstance(r, dict):
                fix(r)
    for where in ("settings", "args"):
        dl = twin.get(where, {}).get("default_language")
        if dl:
            twin[where]["default_language"] = " ".join(dl.split()) or dl
    return twin
