"""Shared helpers for property modules: running the code under test."""

from __future__ import annotations

import copy
import re

from pyxform.errors import PyXFormError
from pyxform.xls2xform import convert

from vf import model

XML_ILLEGAL_RE = re.compile("[\x00-\x08\x0b\x0c\x0e-\x1f￾￿\ud800-\udfff]")


def run_workbook(wb, pretty=False, **args):
    """-> ("ok", ConvertResult) | ("rejected", PyXFormError) | ("crash", Exception)"""
    try:
        return "ok", convert(copy.deepcopy(wb), pretty_print=pretty, **args)
    except PyXFormError as e:
        return "rejected", e
    except Exception as e:  # noqa: BLE001  -- any other type is reported by the caller
        return "crash", e


def run_form(form, pretty=False, with_headers=True):
    wb = model.to_workbook_dict(form, with_headers=with_headers)
    args = {k: v for k, v in form.get("args", {}).items() if k in ("form_name", "default_language")}
    return run_workbook(wb, pretty=pretty, **args)


def err_class(e: BaseException) -> str:
    """normalised error message (names/numbers removed) for labels"""
    s = str(e)
    s = re.sub(r"'[^']*'|\"[^\"]*\"|\$\{[^}]*\}|\d+", "_", s)
    return s[:70]


def all_strings(x):
    if isinstance(x, str):
        yield x
    elif isinstance(x, dict):
        for k, v in x.items():
            yield k
            yield from all_strings(v)
    elif isinstance(x, list):
        for v in x:
            yield from all_strings(v)


CLEAN = [True]   # the documented settings switch clean_text_values=no turns every normalisation off (set by the check that generates it)


def survey_clean(s: str) -> str:
    """documented normalisation of survey-sheet cells: strip, collapse runs of spaces, straighten smart quotes"""
    if not CLEAN[0]:
        return s
    s = re.sub(r"( )+", " ", s.strip())
    return smart(s)


def smart(s: str) -> str:
    if not CLEAN[0]:
        return s
    return smart_always(s)


def smart_always(s: str) -> str:
    """(the settings sheet is cleaned whatever clean_text_values says: the switch itself is read from it)"""
    return s.replace("‘", "'").replace("’", "'").replace("“", '"').replace("”", '"')
