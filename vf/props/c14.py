"""C14 -- conversion is a pure function of its input (hash seeds x histories x schedules x regeneration)."""

from __future__ import annotations

import atexit
import json
import os
import shutil
import subprocess
import tempfile

from hypothesis import strategies as st

from vf import gen, model
from vf.runner import Outcome

ID = "C14"
LEVEL = "exploration"
RULE = ("Four generated case kinds, all comparing bytes of (xform, warnings, itemsets): (seeds) one generated form converted by long-lived "
        "workers started with different PYTHONHASHSEED values (4 per shard, seeds derived from VERIF_SEED and the shard) and by a fresh "
        "process; (history) a generated sequence of steps 'convert form i of a generated pool in worker w, with pretty flag p, then "
        "regenerate the XML k more times from the retained survey object', including forms that are rejected, every answer compared with "
        "the answer a fresh process gives for that form, the worker's private TMPDIR must be empty and a deep snapshot of pyxform's "
        "module-level tables must equal the snapshot taken at import after every step; (threads) K in {2,3,4} conversions in K threads of "
        "one worker under a harness-owned schedule (a sys.setprofile hook on pyxform call events hands a baton according to a generated "
        "list of (gap, next-thread) pairs), and again under race-directed schedules in pristine child processes (cold caches): the function at a "
        "sampled call event of the first job's own trace becomes the switch point, and every entry of it hands the baton to the next thread; "
        "each answer compared with the fresh-process answer; (stress) free-running threads with "
        "switch interval 1e-6. Non-trivial = seeds: the form is accepted; history: >= 1 form converted again after a different form and "
        ">= 1 regeneration; threads: >= 3 context switches actually taken between conversions of different forms; distinct by SHA-1 of the case JSON")
ASSUMPTIONS = ["hash seeds are sampled (2^32 values), not enumerated",
               "thread switch points are pyxform function-call boundaries; finer interleavings are probed only by the free-running stress kind",
               "every conversion receives its own deep copy of the input, which must come back unchanged; the seeds kind converts the same object twice",
               "error messages of rejected forms are compared too (same bytes), which is slightly more than the statement demands of results"]
BUDGET = {"quick": 1100, "thorough": 40000}
REQUIRED_LABELS = ["kind:seeds", "kind:history", "kind:threads", "kind:stress", "history:repeat-after-other", "history:regen", "threads:switches>=3", "threads:focus-switches>=3",
                   "seeds:accepted", "feature:no-headers", "feature:or-other-translated", "feature:namespaces", "feature:single-colon-headers", "feature:invalid-choice-headers", "feature:instance-in-label", "feature:late-language-codes", "feature:pulldata-several-files", "kind:cold"]

REPO = os.environ.get("VERIF_REPO", "/repo")
HERE = os.path.dirname(os.path.dirname(os.path.dirname(os.path.abspath(__file__))))
PY = "/venv/bin/python"


# ------------------------------------------------------------------ workers


class Worker:
    def __init__(self, hashseed):
        self.hashseed = str(hashseed)
        self.owner = os.getpid()
        self.tmp = tempfile.mkdtemp(prefix="vfc14_")
        env = {k: v for k, v in os.environ.items() if k != "PYXFORM_VERIF"}
        env.update(PYTHONHASHSEED=self.hashseed, TMPDIR=self.tmp, TEMP=self.tmp, TMP=self.tmp, PYTHONPATH=os.pathsep.join([REPO, HERE]),
                   PYTHONDONTWRITEBYTECODE="1")
        self.p = subprocess.Popen([PY, "-B", "-m", "vf.c14_worker"], stdin=subprocess.PIPE, stdout=subprocess.PIPE, stderr=subprocess.DEVNULL,
                                  env=env, cwd=HERE, text=True, encoding="utf-8")

    def ask(self, msg):
        self.p.stdin.write(json.dumps(msg) + "\n")
        self.p.stdin.flush()
        while True:
            line = self.p.stdout.readline()
            if not line:
                raise RuntimeError(f"worker (hash seed {self.hashseed}) died")
            if line.startswith("@@VF "):     # anything else on stdout is not ours (e.g. a stray print in the code under test)
                return json.loads(line[5:])

    def close(self):
        if self.owner != os.getpid():
            return
        try:
            self.p.stdin.close()
            self.p.wait(timeout=10)
        except Exception:  # noqa: BLE001
            self.p.kill()
        shutil.rmtree(self.tmp, ignore_errors=True)


_POOL = []
_OWNER = {}


def pool():
    """the shard's long-lived workers (created on first use; they live for the whole shard so that state can accumulate)"""
    if _POOL and _OWNER.get("pool") != os.getpid():
        del _POOL[:]        # inherited through fork from the parent (regression replay): those pipes are not ours
    if not _POOL:
        _OWNER["pool"] = os.getpid()
        base = (int(os.environ.get("VERIF_SEED", "1") or "1") * 7919 + os.getpid()) % 100000
        for hs in (0, 1, base + 2, base + 3):
            _POOL.append(Worker(hs))
        atexit.register(lambda: [w.close() for w in _POOL])
    return _POOL


_TEMPLATE = []


def fresh_answer(job, cache):
    """what a brand-new process says (the model of 'no history'): a template process that has imported pyxform and never converts
    anything forks a pristine child for every request"""
    key = json.dumps(job, sort_keys=True)
    if key not in cache:
        cache[key] = template().ask(dict(job, op="fresh"))
    return cache[key]


def template():
    if _TEMPLATE and _OWNER.get("template") != os.getpid():
        del _TEMPLATE[:]
    if not _TEMPLATE:
        _OWNER["template"] = os.getpid()
        _TEMPLATE.append(Worker(0))
        atexit.register(lambda: [w.close() for w in _TEMPLATE])
    return _TEMPLATE[0]


def triple(r):
    if r.get("status") == "ok":
        return ("ok", r["xform"], r["warnings"], r["itemsets"])
    return (r.get("status"), r.get("message"))


# ------------------------------------------------------------------ generator


def _job(form, g, with_headers=True):
    wb = model.to_workbook_dict(form, with_headers=with_headers)
    args = {k: v for k, v in form.get("args", {}).items() if k in ("form_name", "default_language")}
    return {"wb": wb, "args": args, "pretty": False}


def _form(draw, g_holder, force_xlsx=False):
    prof = dict(gen.PROFILES["broad"], max_rows=14, p_or_other=0.25, p_multilang=0.6, p_extra_cols=0.5, p_external=0.08, settings="some",
                p_extra_sheets=0.2, p_choice_filter=0.3, p_randomize=0.2, p_search=0.05, p_trigger=0.1, p_default=0.2, text_ctl=False,
                # the same path may be a group in one form and a repeat in the next; few distinct names so that paths coincide across forms
                neutral_container_names=True, odd_names=0.0, p_group=0.25, p_repeat=0.25, p_ref=0.9, p_logic=0.7, p_text_ref=0.4,
                p_instance_expr=0.1)
    g = gen.G(draw, prof)
    form = gen.build_form(draw, prof, g=g)
    form.pop("_langs", None)
    feats = set()
    if g.p("_", 0.3):
        form.setdefault("settings", {})["namespaces"] = 'esri="http://esri.com/xforms" aa="http://a.example/ns" zz="http://z.example/ns"'
        feats.add("namespaces")
    if g.p("_", 0.15):
        form["ext"] = [{"list_name": "cities", "name": "a", "label": "A", "state": "x", "zone": "1"}, {"list_name": "cities", "name": "b", "zone": "2"}]
        form["nodes"].append({"k": "q", "c": {"type": "select_one_external cities", "name": "extq", "label": "City", "choice_filter": "state='x'"}})
        feats.add("external-choices")
    if g.p("_", 0.15):
        form["extra_sheets"] = ["surveys", "choice", "setting", "entitys"][: g.integer(1, 4)]
        feats.add("misspelled-sheets")
    if any("or_other" in n["c"].get("type", "") for n, _ in model.walk(form["nodes"])) and g.langs:
        feats.add("or-other-translated")
    if form.get("lists") and g.p("_", 0.45):
        # a label with two instance() expressions (documented dynamic label)
        ln = form["lists"][0]["name"]
        qs_ = [n for n, _ in model.walk(form["nodes"]) if n["k"] == "q" and "label" in n["c"] and "calculation" not in n["c"] and "trigger" not in n["c"]
               and n["c"].get("type", "").split(" ")[0] in ("text", "integer", "note", "date")]
        if qs_:
            refs = [q["c"]["name"] for q in qs_ if q["c"].get("name")]
            for n in qs_[: g.integer(1, 2)]:
                # sometimes the very same text in every form (cached parse), sometimes one of its own
                tag = "" if g.p("_", 0.4) else str(g.integer(0, 9999))
                others = [x for x in refs if x != n["c"].get("name")]
                pred = "${%s}" % g.pick(others) if others and g.p("_", 0.5) else "'c1'"
                n["c"]["label"] = (f"First{tag} instance('{ln}')/root/item[name = {pred}]/label then instance('{ln}')/root/item[name = 'c2']/label end")
            feats.add("instance-in-label")
    if g.p("_", 0.2):
        # one question consulting several pulldata() files from different logic columns: each file is declared as an instance
        qs_ = [n for n, _ in model.walk(form["nodes"]) if n["k"] == "q" and n["c"].get("type", "").split(" ")[0] in ("text", "integer", "decimal", "date")
               and "trigger" not in n["c"] and "calculation" not in n["c"]]
        if qs_:
            files = g.shuffled(["pdfa", "pdfb", "pdfc", "pdfd", "pdfe"])
            for n in qs_[: g.integer(1, 2)]:
                for col, f in zip(g.shuffled(["relevant", "constraint", "required", "readonly"])[: g.integer(2, 4)], files):
                    n["c"][col] = f"pulldata('{f}', 'c', 'k', 'v{g.integer(0, 9)}') = 'y'"
            feats.add("pulldata-several-files")
    if g.p("_", 0.15):
        # languages whose codes sit late in the registry files
        for n, _ in model.walk(form["nodes"]):
            if n["k"] == "q" and "label" in n["c"] and "${" not in n["c"]["label"] and g.p("_", 0.5):
                n["c"]["label::Zulu (zu)"] = n["c"].pop("label")
                n["c"]["label::Filipino (fil)"] = "f"
        feats.add("late-language-codes")
    if form.get("lists") and g.p("_", 0.25):
        # several extra choices columns that cannot be element names: each gets its own warning, in sheet order
        cols = g.shuffled(["geo code", "old name", "1col", "a b c", "x y", "9", "per cent%"])[: g.integer(2, 5)]
        for lst in form["lists"]:
            for r in lst["rows"]:
                for cname in cols:
                    if g.p("_", 0.6):
                        r[cname] = "v"
        feats.add("invalid-choice-headers")
    if g.p("_", 0.15):
        # several near-misses of one optional sheet name: the warning lists them, in workbook order
        form["extra_sheets"] = g.shuffled(["setting", "settingz", "stetings", "Settings2", "entitie", "entitys", "entites", "surveys"])[: g.integer(2, 5)]
        if g.p("_", 0.6):
            form.pop("settings", None)
        feats.add("misspelled-sheets")
    if g.p("_", 0.15):
        # both id columns on the settings sheet (form_id and id_string): legal, earns an advisory warning, and the converter drops one of
        # them while reading -- from its own copy, never from the caller's workbook or from anything a later conversion sees
        st_ = form.setdefault("settings", {})
        if "id_string" not in st_:
            if "form_id" in st_ and g.p("_", 0.5):
                form["settings"] = {("id_string" if k == "form_id" else k): v for k, v in st_.items()}
                form["settings_header_extra"] = ["form_id"]
            else:
                st_.setdefault("form_id", "fid" + str(g.integer(0, 99)))
                st_["id_string"] = st_["form_id"] if g.p("_", 0.5) else "ids" + str(g.integer(0, 99))
        feats.add("both-id-headers")
    if g.p("_", 0.2):
        # rows without a control (calculate, hidden) that share a name across groups: legal as long as nobody refers to the name
        grps = [n for n, _ in model.walk(form["nodes"]) if n["k"] in ("g", "r") and n.get("ch") is not None]
        if len(grps) >= 2:
            nm_ = "bonus" + str(g.integer(0, 9))
            for gr in grps[: g.integer(2, 3)]:
                gr["ch"].append({"k": "q", "c": {"type": g.pick(["calculate", "hidden"]), "name": nm_, "calculation": "1 + " + str(g.integer(0, 9))}})
            feats.add("same-name-controlless-rows")
    if g.p("_", 0.15):
        form.setdefault("settings", {})["flat"] = "yes"       # legacy setting with form-wide name bookkeeping
        feats.add("flat")
    if g.p("_", 0.15) or force_xlsx:
        # an .xlsx file with typed cells: booleans, and whole numbers stored as floating point (as in workbooks converted from .xls)
        form["container"] = "xlsx"
        form["typed_style"] = g.pick(["bool", "float", "both"])
        for n, _ in model.walk(form["nodes"]):
            if n["k"] == "q" and "trigger" not in n["c"] and n["c"].get("type", "").split(" ")[0] in ("text", "integer", "decimal"):
                if g.p("_", 0.5):
                    n["c"]["required"] = g.pick(["TRUE", "FALSE"])
                if g.p("_", 0.5) and "calculation" not in n["c"]:
                    n["c"]["default"] = g.pick(["1", "0", "2"])
        # a typed cell at the very start of the file and one at its very end: whatever a reader keeps between two files meets there
        form["nodes"].insert(0, {"k": "q", "c": {"type": "integer", "name": "first_n", "label": "N", "default": g.pick(["1", "0"])}})
        form.setdefault("settings", {})["auto_send"] = g.pick(["TRUE", "FALSE"])
        feats.add("xlsx-typed-cells:" + form["typed_style"])
    with_headers = not g.p("_", 0.3)
    if not with_headers:
        feats.add("no-headers")
    # header delimiter style: the same header text ('label:French (fr)') is split on ':' in a sheet without any '::' header and is an
    # unknown column in a sheet that has one -- per sheet, whatever was converted before
    if g.langs and g.p("_", 0.35):
        form["colon_style"] = g.pick(["single", "mixed"])
        feats.add("single-colon-headers")
    g_holder.append(g)
    return form, with_headers, sorted(feats)


@st.composite
def _cases(draw):
    holder = []
    kind_n = draw(st.integers(0, 19))
    if kind_n < 7:
        form, wh, feats = _form(draw, holder)
        return {"kind": "seeds", "form": form, "with_headers": wh, "features": feats}
    g0 = gen.G(draw, {})
    nforms = g0.integer(2, 4)
    forms = []
    all_xlsx = g0.p("_", 0.15)      # a batch of spreadsheet files: what the readers keep between files meets the next file
    for _ in range(nforms):
        f, wh, feats = _form(draw, holder, force_xlsx=all_xlsx)
        forms.append({"form": f, "with_headers": wh, "features": feats})
    if g0.p("_", 0.2):
        # a form that is rejected: its failure must not poison later conversions
        forms.append({"form": {"nodes": [{"k": "q", "c": {"type": "text", "name": "bad", "label": "see ${nosuch}"}}], "args": {}},
                      "with_headers": True, "features": ["rejected"]})
    if kind_n < 13:
        steps = [{"f": g0.integer(0, len(forms) - 1), "w": g0.integer(0, 3), "pretty": g0.p("_", 0.3), "regen": g0.pick([0, 0, 1, 2, 4])}
                 for _ in range(g0.integer(3, 9))]
        return {"kind": "history", "forms": forms, "steps": steps}
    if kind_n == 18 and g0.p("_", 0.5):
        # the very first conversions of a brand-new process, run concurrently (lazy one-time initialisation races)
        return {"kind": "cold", "forms": forms, "threads": g0.pick([4, 6, 8]), "rounds": 1}
    if kind_n < 19:
        k = g0.integer(2, 4)
        jobs = [g0.integer(0, len(forms) - 1) for _ in range(k)]
        schedule = [[g0.pick([1, 1, 2, 3, 5, 8, 13, 40, 100, 400]), g0.integer(0, k - 1)] for _ in range(g0.integer(3, 40))]
        picks = [g0.integer(0, 10 ** 6) for _ in range(8)] if g0.p("_", 0.8) else []
        return {"kind": "threads", "forms": forms, "jobs": jobs, "schedule": schedule, "w": g0.integer(0, 3), "picks": picks}
    return {"kind": "stress", "forms": forms, "threads": g0.pick([4, 8, 12]), "rounds": g0.integer(2, 4), "w": g0.integer(0, 3)}


def strategy(tier):
    return _cases()


# ------------------------------------------------------------------ oracle


LANG_COLS = ("label", "hint", "guidance_hint", "constraint_message", "required_message", "image", "audio", "video", "big-image")


def restyle(wb, style):
    """rename translated headers of the survey sheet from 'col::lang' to 'col:lang' (style 'mixed' keeps every other '::' header)"""
    rows = wb.get("survey") or []
    heads = list(wb["survey_header"][0]) if wb.get("survey_header") else []
    keys = {k for r in rows for k in r} | set(heads)
    if style == "single" and any("::" in k and k.split("::")[0] not in LANG_COLS for k in keys):
        return wb
    ren = {k: k.replace("::", ":", 1) for k in keys if "::" in k and k.split("::")[0] in LANG_COLS and ":" not in k.split("::", 1)[1]}
    wb["survey"] = [{ren.get(k, k): v for k, v in r.items()} for r in rows]
    if heads:
        wb["survey_header"] = [{ren.get(k, k): None for k in heads}]
    return wb


def _floats_spelled_out(data: bytes) -> bytes:
    """whole numbers stored as '1.0' rather than '1' (what a workbook converted from .xls holds): the reader then sees a float"""
    import io
    import re
    import zipfile

    src = zipfile.ZipFile(io.BytesIO(data))
    buf = io.BytesIO()
    with zipfile.ZipFile(buf, "w", zipfile.ZIP_DEFLATED) as dst:
        for item in src.infolist():
            raw = src.read(item.filename)
            if item.filename.startswith("xl/worksheets/sheet"):
                txt = raw.decode("utf-8")
                txt = re.sub(r'(<c r="[A-Z]+[0-9]+"(?: s="[0-9]+")?(?: t="n")?>\s*<v>)(-?[0-9]+)(</v>)', r"\g<1>\g<2>.0\g<3>", txt)
                raw = txt.encode("utf-8")
            dst.writestr(item, raw)
    return buf.getvalue()


def mkjob(fd, pretty=False):
    form = fd["form"]
    if form.get("container") == "xlsx":
        from vf import render
        style = form.get("typed_style", "both")
        typed = {}
        for name, head, rows in render.sheets_of(form):
            if name.lower() == "settings":
                for i, r in enumerate(rows):
                    if style in ("bool", "both") and r.get("auto_send") in ("TRUE", "FALSE"):
                        typed[(name, i, "auto_send")] = r["auto_send"] == "TRUE"
            if name.lower() != "survey":
                continue
            for i, r in enumerate(rows):
                for h, v_ in r.items():
                    if style in ("bool", "both") and h in ("required", "readonly") and v_ in ("TRUE", "FALSE"):
                        typed[(name, i, h)] = v_ == "TRUE"
                    if style in ("float", "both") and h == "default" and v_ in ("0", "1", "2"):
                        typed[(name, i, h)] = float(v_)
        args = {k: v for k, v in form.get("args", {}).items() if k in ("form_name", "default_language")}
        return {"wb_hex": _floats_spelled_out(render.to_xlsx(form, typed=typed)).hex(), "file_type": ".xlsx", "args": args, "pretty": bool(pretty)}

    wb = model.to_workbook_dict(form, with_headers=fd.get("with_headers", True))
    if form.get("colon_style"):
        wb = restyle(wb, form["colon_style"])
    args = {k: v for k, v in form.get("args", {}).items() if k in ("form_name", "default_language")}
    return {"wb": wb, "args": args, "pretty": bool(pretty)}


def common_checks(out, res, where):
    if "error" in res:
        raise RuntimeError(f"worker error: {res['error']}\n{res.get('trace', '')}")
    out.checked("C14.no-temp-residue")
    if res.get("tmp"):
        out.fail("C14.no-temp-residue", where, f"temporary files left behind: {res['tmp'][:4]}")
    if "input_unchanged" in res:
        out.checked("C14.input-unchanged")
        if res["input_unchanged"] is False:
            out.fail("C14.input-unchanged", where, "the workbook dict handed to convert() was modified by the conversion")
    if "second_same" in res:
        out.checked("C14.same-object-twice")
        if res["second_same"] is False:
            out.fail("C14.same-object-twice", where, f"converting the same workbook object a second time gave another result: {res.get('second')}")
    out.checked("C14.module-tables-unchanged")
    if res.get("tables_same") is False:
        out.fail("C14.module-tables-unchanged", where, "a module-level table of pyxform differs from its state at import")


def describe(a, b):
    if a[0] != b[0]:
        return "status", f"{a[0]} vs {b[0]}: {a[1] if a[0] != 'ok' else ''} {b[1] if b[0] != 'ok' else ''}"[:300]
    if a[0] != "ok":
        return "message", f"{a[1]!r} vs {b[1]!r}"[:300]
    for name, x, y in zip(("xform", "warnings", "itemsets"), a[1:], b[1:]):
        if x != y:
            if isinstance(x, str) and isinstance(y, str):
                i = next((i for i, (p, q) in enumerate(zip(x, y)) if p != q), min(len(x), len(y)))
                return name, f"first difference at {i}: …{x[max(0, i - 60):i + 60]!r} vs …{y[max(0, i - 60):i + 60]!r}"
            return name, f"{x!r} vs {y!r}"[:400]
    return "?", ""


def evaluate(case) -> Outcome:
    out = Outcome()
    kind = case["kind"]
    out.label("kind:" + kind)
    ws = pool()
    cache = {}
    if kind == "seeds":
        for f in case.get("features", []):
            out.label("feature:" + f)
        job = mkjob(case)
        ref = fresh_answer(job, cache)
        if ref.get("status") == "ok":
            out.label("seeds:accepted")
            out.nontrivial = True
        else:
            out.label("seeds:" + str(ref.get("status")))
        extra = [Worker(h) for h in case.get("hashseeds", [])]  # regression cases name their hash seeds
        for w in [*ws, *extra]:
            res = w.ask(dict(job, op="convert", twice=True))
            if w in extra:
                w.close()
            common_checks(out, res, "seeds")
            out.checked("C14.same-across-hash-seeds")
            if triple(res) != triple(ref):
                what, detail = describe(triple(ref), triple(res))
                out.fail("C14.same-across-hash-seeds", what, f"hash seed 0 (fresh) vs {w.hashseed}: {detail}")
        return out
    forms = case["forms"]
    for fd in forms:
        for f in fd.get("features", []):
            out.label("feature:" + f)
    if kind == "history":
        seen_order = []
        repeat_after_other = False
        regen_done = False
        for i, stp in enumerate(case["steps"]):
            fd = forms[stp["f"] % len(forms)]
            job = mkjob(fd, stp.get("pretty"))
            ref = fresh_answer(job, cache)
            w = ws[stp["w"] % len(ws)]
            res = w.ask(dict(job, op="convert", regen=stp.get("regen", 0)))
            common_checks(out, res, "history")
            out.checked("C14.same-after-history")
            if triple(res) != triple(ref):
                what, detail = describe(triple(ref), triple(res))
                out.fail("C14.same-after-history", what, f"step {i} (form {stp['f']} in worker {stp['w']}): {detail}")
            if res.get("regen_error"):
                out.checked("C14.regeneration-idempotent")
                out.fail("C14.regeneration-idempotent", "raises", f"step {i}: to_xml() succeeded once and then raised: {res['regen_error']}")
            if res.get("regen"):
                regen_done = True
                out.checked("C14.regeneration-idempotent")
                if any(x != res["xform"] for x in res["regen"]):
                    out.fail("C14.regeneration-idempotent", "", f"step {i}: to_xml() on the retained survey gave different text on a later call")
            key = (stp["w"] % len(ws), stp["f"] % len(forms))
            prior = [k for k in seen_order if k[0] == key[0]]
            if key in prior and any(k != key for k in prior[prior.index(key):]):
                repeat_after_other = True
            seen_order.append(key)
        if repeat_after_other:
            out.label("history:repeat-after-other")
        if regen_done:
            out.label("history:regen")
        out.nontrivial = repeat_after_other and regen_done
        return out
    if kind == "cold":
        jobs = [mkjob(fd) for fd in forms]
        cold = Worker(0)
        try:
            res = cold.ask({"op": "stress", "jobs": jobs, "threads": case["threads"], "rounds": case["rounds"]})
        finally:
            cold.close()
        common_checks(out, res, "cold")
        for per_thread in res["runs"]:
            for r, ji in per_thread:
                ref = fresh_answer(jobs[ji], cache)
                out.checked("C14.same-on-cold-start")
                if r is None or triple(r) != triple(ref):
                    what, detail = describe(triple(ref), triple(r or {"status": "missing"}))
                    out.fail("C14.same-on-cold-start", what, detail)
        out.nontrivial = True
        return out
    w = ws[case.get("w", 0) % len(ws)]
    if kind == "threads":
        jobs = [mkjob(forms[j % len(forms)]) for j in case["jobs"]]
        res = w.ask({"op": "threads", "jobs": jobs, "schedule": case["schedule"]})
        common_checks(out, res, "threads")
        if res.get("hung"):
            raise RuntimeError("controlled scheduler hung")
        for j, r in zip(jobs, res["results"]):
            ref = fresh_answer(j, cache)
            out.checked("C14.same-under-schedule")
            if r is None or triple(r) != triple(ref):
                what, detail = describe(triple(ref), triple(r or {"status": "missing"}))
                out.fail("C14.same-under-schedule", what, f"{res['switches']} switches: {detail}")
        distinct = len({json.dumps(j, sort_keys=True) for j in jobs}) > 1
        if case.get("picks") and distinct:
            # race-directed schedules: a function sampled from job 0's own call trace becomes the switch point, in a pristine child
            fres = template().ask({"op": "focus", "jobs": jobs, "picks": case["picks"]})
            if "error" in fres:
                raise RuntimeError(f"worker error: {fres['error']}\n{fres.get('trace', '')}")
            for run in fres["runs"]:
                if run.get("hung"):
                    raise RuntimeError("controlled scheduler hung (focus)")
                if run["switches"] >= 3:
                    out.label("threads:focus-switches>=3")
                for j, r in zip(jobs, run["results"]):
                    ref = fresh_answer(j, cache)
                    out.checked("C14.same-under-schedule")
                    if r is None or triple(r) != triple(ref):
                        what, detail = describe(triple(ref), triple(r or {"status": "missing"}))
                        out.fail("C14.same-under-schedule", what, f"switching at every entry of {run['key'][0]}:{run['key'][1]} ({run['switches']} switches): {detail}")
        if res["switches"] >= 3 and distinct:
            out.label("threads:switches>=3")
            out.nontrivial = True
        return out
    jobs = [mkjob(fd) for fd in forms]
    res = w.ask({"op": "stress", "jobs": jobs, "threads": case["threads"], "rounds": case["rounds"]})
    common_checks(out, res, "stress")
    for per_thread in res["runs"]:
        for r, ji in per_thread:
            ref = fresh_answer(jobs[ji], cache)
            out.checked("C14.same-under-stress")
            if r is None or triple(r) != triple(ref):
                what, detail = describe(triple(ref), triple(r or {"status": "missing"}))
                out.fail("C14.same-under-stress", what, detail)
    out.nontrivial = True
    return out
