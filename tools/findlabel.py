"""usage: tools/findlabel.py <prop> <label-substring> [n] -- generate cases until one gets a label containing the substring; print it (shrunk)."""
import sys, json, importlib
sys.path.insert(0, "/verif")
from hypothesis import given, settings, seed, HealthCheck, Phase
prop = importlib.import_module("vf.props." + sys.argv[1].lower()); sub = sys.argv[2]; N = int(sys.argv[3]) if len(sys.argv) > 3 else 3000
found = []
@seed(7)
@settings(max_examples=N, database=None, deadline=None, suppress_health_check=list(HealthCheck), phases=[Phase.generate])
@given(prop.strategy("quick"))
def t(case):
    if found: return
    out = prop.evaluate(case)
    if any(sub in l for l in out.labels): found.append(case)
t()
if not found: print("not found"); sys.exit(1)
case = found[0]
# greedy shrink keeping the label
from vf.runner import _reductions, _apply
def has(c):
    try: return any(sub in l for l in prop.evaluate(c).labels)
    except Exception: return False
imp = True; ev = 0
while imp and ev < 600:
    imp = False
    for path, op in list(_reductions(case)):
        try: cand = _apply(case, path, op)
        except Exception: continue
        ev += 1
        if has(cand): case = cand; imp = True; break
print(json.dumps(case, ensure_ascii=False))
from vf import model
print(json.dumps(model.to_workbook_dict(case["form"], False), ensure_ascii=False))
