"""Reference model for translations (C08): which text each language must show."""

from __future__ import annotations

from vf import common, model
from vf.ref import expect

MEDIA = ("image", "big-image", "audio", "video")
MEDIA_PREFIX = {"image": "jr://images/", "big-image": "jr://images/", "audio": "jr://audio/", "video": "jr://video/"}


def lang_map(cells, col, dlang, clean):
    """{lang: text} for a translatable column; the unsuffixed cell counts for the default language unless shadowed"""
    out = {}
    plain = None
    for k, v in cells.items():
        if k == col:
            plain = clean(v)
        elif k.startswith(col + "::"):
            out[k[len(col) + 2:]] = clean(v)
    suffixed = bool(out)
    if plain is not None and dlang not in out:
        out[dlang] = plain
    return out, suffixed, plain


def element_model(cells, dlang, clean=common.survey_clean):
    """kind -> ("inline", text) | ("itext", {lang: text}) for one survey row; media -> {type: {lang: file}}"""
    m = {}
    media = {}
    for mt in MEDIA:
        lm, _, _ = lang_map(cells, mt, dlang, clean)
        if lm:
            media[mt] = lm
    lab, lab_suff, lab_plain = lang_map(cells, "label", dlang, clean)
    if (lab_suff or media) and lab:
        m["label"] = ("itext", lab)
    elif media:
        pass  # media only: the itext entry carries media forms but no plain text in any language
    elif lab_plain is not None:
        m["label"] = ("inline", lab_plain)
    gui, _, _ = lang_map(cells, "guidance_hint", dlang, clean)
    hint, hint_suff, hint_plain = lang_map(cells, "hint", dlang, clean)
    if gui:
        m["guidance"] = ("itext", gui)
    if hint_suff or (gui and hint):
        m["hint"] = ("itext", hint)
    elif hint_plain is not None:
        m["hint"] = ("inline", hint_plain)
    for col, key in (("constraint_message", "jr:constraintMsg"), ("required_message", "jr:requiredMsg")):
        mm, suff, plain = lang_map(cells, col, dlang, clean)
        if suff or (plain is not None and model.REF_RE.search(plain)):
            m[key] = ("itext", mm)
        elif plain is not None:
            m[key] = ("inline", plain)
    return m, media


def list_model(lst, dlang):
    """-> (requires_itext, [per choice: (label model, media)])"""
    rows = []
    req = False
    for r in lst["rows"]:
        lab, suff, plain = lang_map(r, "label", dlang, common.smart)
        media = {}
        for mt in MEDIA:
            lm, _, _ = lang_map(r, mt, dlang, common.smart)
            if lm:
                media[mt] = lm
        if media or suff or (plain is not None and model.REF_RE.search(plain)):
            req = True
        rows.append((lab, plain, media, suff))
    return req, rows


def langs_of(m, media):
    out = set()
    for v in m.values():
        if v[0] == "itext":
            out |= set(v[1])
    for lm in media.values():
        out |= set(lm)
    return out
