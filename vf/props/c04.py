"""C04 -- survey rows map one-to-one, in order and nesting, onto instance and body."""

from __future__ import annotations

from hypothesis import strategies as st

from vf import common, gen, model, xform
from vf.ref import expect
from vf.ref import typetable as tt
from vf.runner import Outcome, crash_sig
from vf.xform import ODK, XF, q

ID = "C04"
LEVEL = "exploration"
RULE = ("Hypothesis-generated forms (struct profile: every question type, groups/repeats nested to depth 4, table-list, "
        "or_other, repeat_count helpers, meta rows, blank/comment/disabled rows, appearance and parameters columns); the "
        "reference model walks the abstract tree to the expected instance and body trees; non-trivial = accepted form with "
        ">=2 container rows and >=5 question rows of >=3 distinct types; distinct by SHA-1 of the case JSON")
ASSUMPTIONS = ["reference model restated from the XLSForm docs (vf/ref/expect.py, vf/ref/typetable.py), calibrated on the unchanged tree",
               "appearance strings compared verbatim except the documented table-list rewrites"]
BUDGET = {"quick": 12000, "thorough": 400000}

CTRL = {q(XF, t): t for t in ("input", "select", "select1", "upload", "trigger", "range", "group", "repeat")}
CTRL[q(ODK, "rank")] = "odk:rank"
STATIC_ATTRS = ("appearance", "mediatype", "rows", "accuracyThreshold", "unacceptableAccuracyThreshold", "start", "end", "step", "intent")


def noise(g, nodes):
    """sprinkle rows that must produce nothing"""
    out = []
    for n in nodes:
        if g.p("_", 0.06):
            out.append({"k": "x", "c": {}})
        if g.p("_", 0.04):
            out.append({"k": "x", "c": {"hint": "just a comment row"}})
        if g.p("_", 0.04):
            out.append({"k": "x", "c": {"type": "text", "name": g.name("dis"), "label": "disabled row", "disabled": g.pick(["yes", "true", "TRUE"])}})
        if n["k"] in ("g", "r"):
            n["ch"] = noise(g, n["ch"])
        elif n["k"] == "q" and g.p("_", 0.05):
            n["c"]["disabled"] = "no"
        out.append(n)
    return out


@st.composite
def _cases(draw):
    prof = dict(gen.PROFILES["struct"], p_repeat_count=0.4, p_or_other=0.2, p_params=0.6, p_appearance=0.3, p_custom_body=0.1,
                p_external=0.06, p_entities=0.15, p_trigger=0.08, p_calc_on_visible=0.08, p_label_on_hidden=0.15, p_group_hint=0.12,
                p_tag_names=0.05, p_osm=0.05, p_reuse_names=0.2, p_table_list=0.1, p_table_list_nested=0.4, p_empty_container=0.08)
    g = gen.G(draw, prof)
    form = gen.build_form(draw, prof, g=g)
    if g.p("_", 0.5):
        form["nodes"] = noise(g, form["nodes"])
    if g.p("_", 0.05):
        form.setdefault("settings", {})["flat"] = g.pick(["no", "false", "FALSE", "No"])      # a yes/no setting, switched off
    if g.p("_", 0.15):
        form["nodes"].append({"k": "q", "c": {"type": "audit", "name": "audit"} if g.p("_", 0.5) else {"type": "audit"}})
    if g.p("_", 0.15):
        # the workbook as a spreadsheet or CSV file the way people keep them: header-less spacer columns, runs of blank rows, typed numbers
        form["carrier"] = {"fmt": g.pick(["xlsx", "xls", "csv", "csv"]), "seed": g.integer(0, 9999)}
    return {"form": form}


def strategy(tier):
    return _cases()


def parse_params(text):
    if not text:
        return {}
    parts = text.split(";")
    if len(parts) == 1:
        parts = text.split(",")
    if len(parts) == 1:
        parts = text.split()
    out = {}
    for p in parts:
        k, _, v = p.partition("=")
        k = k.strip().lower()
        out[k] = v.strip() if k in ("label", "value", "app") else v.strip().lower()     # (an Android package name is case-sensitive)
    return out


def expected_attrs(n: expect.RNode):
    c = n.cells
    a = {}
    ap = expect.cell(c, "appearance")
    if n.kind == "g":
        if ap:
            words = ap.split()
            if "table-list" in words:
                ap = " ".join(["field-list"] + [w for w in words if w != "table-list"])
            a["appearance"] = ap
        return a
    if n.kind == "r":
        if ap:
            a["appearance"] = ap
        return a
    base, lst, other = tt.parse_type(n.type)
    info = tt.type_info(n.type)
    a.update(info[3])
    if ap:
        a["appearance"] = ap
    if n.helper == "in-table-list":
        a["appearance"] = "list-nolabel"
    prm = parse_params(expect.cell(c, "parameters"))
    if base == "text" and "rows" in prm:
        a["rows"] = prm["rows"]
    if base == "geopoint":
        if "capture-accuracy" in prm:
            a["accuracyThreshold"] = prm["capture-accuracy"]
        if "warning-accuracy" in prm:
            a["unacceptableAccuracyThreshold"] = prm["warning-accuracy"]
    if base == "image" and "app" in prm and (not ap or ap == "annotate"):
        a["intent"] = prm["app"]      # documented: the camera app to launch, as typed (not with the draw/signature/... appearances)
    if base == "range":
        a["start"] = prm.get("start", "1")
        a["end"] = prm.get("end", "10")
        a["step"] = prm.get("step", "1")
    for k, v in c.items():
        if k.startswith("body::"):
            a[k[6:]] = common.survey_clean(v)
    return a


def expected_body(n: expect.RNode):
    """list of (tag, ref, attrs, children) for the children of n"""
    out = []
    for ch in n.children:
        tag = expect.expected_control(ch)
        if tag is None:
            continue
        if ch.kind == "g":
            out.append(("group", ch.path, expected_attrs(ch), expected_body(ch)))
        elif ch.kind == "r":
            out.append(("group", ch.path, {}, [("repeat", ch.path, expected_attrs(ch), expected_body(ch))]))
        else:
            out.append((tag, ch.path, expected_attrs(ch), []))
    return out


def actual_body(el):
    out = []
    for c in xform.elems(el):
        t = CTRL.get(c.tag)
        if t is None:
            continue
        ref = c.get("nodeset") if t == "repeat" else c.get("ref")
        out.append((t, ref, xform.attrs(c), actual_body(c)))
    return out


def cmp_body(out, exp, act, where):
    """compare expected and actual control lists; report the first difference"""
    et = [(t, r) for t, r, _, _ in exp]
    at = [(t, r) for t, r, _, _ in act]
    if et != at:
        missing = [x for x in et if x not in at]
        extra = [x for x in at if x not in et]
        if missing:
            out.fail("C04.body-missing", missing[0][0], f"under {where}: missing control {missing[0]}; expected {et}, got {at}")
        elif extra:
            out.fail("C04.body-extra", extra[0][0], f"under {where}: unexpected control {extra[0]}; expected {et}, got {at}")
        else:
            out.fail("C04.body-order", "", f"under {where}: expected order {et}, got {at}")
        return
    for (t, r, ea, ec), (_, _, aa, ac) in zip(exp, act):
        for k in set(ea) | (set(aa) & set(STATIC_ATTRS)):
            if ea.get(k) != aa.get(k):
                out.fail("C04.body-attr", f"{t}@{k}", f"{t} {r}: attribute {k}: expected {ea.get(k)!r}, got {aa.get(k)!r}")
                return
        cmp_body(out, ec, ac, r)


def evaluate(case) -> Outcome:
    out = Outcome()
    form = case["form"]
    status, res = common.run_form(form)
    if status == "crash":
        out.label("outcome:crash:" + crash_sig(res))
        return out
    if status == "rejected":
        out.label("outcome:rejected:" + common.err_class(res))
        return out
    out.label("outcome:accepted")
    try:
        v = xform.XFormView(res.xform)
    except xform.IllFormed:
        out.label("unparseable (C01's business)")
        return out
    if v.primary is None or v.body is None:
        return out
    root = expect.build(form)
    out.checked("C04.instance")
    exp = expect.instance_shape(root)
    act = expect.actual_shape(v.live_instance())
    if exp != act:
        out.fail("C04.instance", _shape_diff_kind(exp, act), f"expected {exp} got {act}")
    out.checked("C04.body")
    cmp_body(out, expected_body(root), actual_body(v.body), "body")
    # a jr:template copy of each repeat (shared with C02)
    from vf.props.c02 import check_templates
    check_templates(out, v, v.root, "C04.template")
    qs = [n for n, _ in model.walk(form["nodes"]) if n["k"] == "q"]
    conts = [n for n, _ in model.walk(form["nodes"]) if n["k"] in ("g", "r")]
    types = {n["c"]["type"].split()[0] for n in qs}
    out.nontrivial = len(conts) >= 2 and len(qs) >= 5 and len(types) >= 3
    for n in root.walk():
        if n.helper:
            out.label("helper:" + n.helper)
    return out


def _shape_diff_kind(e, a):
    """classify the first difference between two (name, children) trees"""
    if e[0] != a[0]:
        return "name"
    en = [c[0] for c in e[1]]
    an = [c[0] for c in a[1]]
    if en != an:
        if sorted(en) == sorted(an):
            return "order"
        miss = [x for x in en if x not in an]
        extra = [x for x in an if x not in en]
        def cls(x):
            for suf in ("_count", "_other"):
                if x.endswith(suf):
                    return suf
            for pre in ("generated_table_list_label", "reserved_name_for_field_list", "generated_note_name"):
                if x.startswith(pre):
                    return pre
            return x if x in ("meta", "instanceID", "instanceName", "audit", "entity") else "row"
        if miss:
            return "missing:" + cls(miss[0])
        return "extra:" + cls(extra[0])
    for x, y in zip(e[1], a[1]):
        if x != y:
            return _shape_diff_kind(x, y)
    return "?"
