"""Abstract form model.

A *case* is plain JSON.  The form part of a case looks like

    {"settings": {col: text, ...},             # one settings row (ordered), may be absent
     "nodes":    [node, ...],                  # the survey tree
     "lists":    [{"name": "c", "rows": [{col: text}, ...]}, ...],   # choices sheet
     "ext":      [{col: text}, ...],           # external_choices rows
     "entities": [{col: text}, ...],           # entities sheet rows
     "extra_sheets": ["name", ...],            # sheet names carrying no XLSForm data
     "args":     {"form_name":..., "default_language":..., "pretty": bool}}

    node = {"k": "q", "c": {"type":..., "name":..., col: text}}
         | {"k": "g"|"r", "c": {...cells of the begin row...}, "ch": [node, ...]}
         | {"k": "x", "c": {...}}              # raw row: blank ({}), comment, disabled

The tree *is* the expected nesting: flattening to begin/end rows is the trivial
direction, pyxform has to do the inverse.
"""

from __future__ import annotations

import copy
import re

REF_RE = re.compile(r"\$\{(last-saved#)?([^}]*)\}")

BEGIN = {"g": "begin group", "r": "begin repeat"}
END = {"g": "end group", "r": "end repeat"}


def flatten_rows(nodes, out=None):
    """survey tree -> list of row dicts (begin/end rows inserted)."""
    if out is None:
        out = []
    for n in nodes:
        k = n["k"]
        if k in ("g", "r"):
            row = dict(n["c"])
            row.setdefault("type", BEGIN[k])
            out.append(row)
            flatten_rows(n.get("ch", []), out)
            out.append(dict(n.get("end", {"type": END[k]})))
        else:
            out.append(dict(n["c"]))
    return out


def row_numbers(nodes, start=2):
    """Assign the sheet row number (header = row 1) to every node, in place of
    nothing: returns {id(node): row} and the next free row."""
    rows = {}

    def walk(ns, r):
        for n in ns:
            rows[id(n)] = r
            r += 1
            if n["k"] in ("g", "r"):
                r = walk(n.get("ch", []), r)
                r += 1  # end row
        return r

    nxt = walk(nodes, start)
    return rows, nxt


def header_of(rows, first=()):
    """Ordered union of keys (first-seen order), `first` columns leading."""
    seen = {}
    for c in first:
        seen[c] = None
    for r in rows:
        for c in r:
            seen.setdefault(c, None)
    # drop leading columns that never occur
    used = {c for r in rows for c in r}
    return [c for c in seen if c in used or c in first and c in used]


def choices_rows(form):
    per_list = []
    for lst in form.get("lists", []):
        cur = []
        for r in lst["rows"]:
            row = {}
            if lst.get("name") is not None:
                row[form.get("list_col", "list_name")] = lst["name"]
            row.update(r)
            cur.append(row)
        per_list.append(cur)
    if form.get("choices_blank_at") is not None and per_list:
        # an empty row inside the choices sheet
        flat = [r for cur in per_list for r in cur]
        pos = form["choices_blank_at"] % (len(flat) + 1)
        return flat[:pos] + [{}] + flat[pos:]
    if form.get("choices_interleave"):
        # the rows of one list need not be contiguous on the sheet: deal them out round robin
        rows = []
        i = 0
        while any(per_list):
            if per_list[i % len(per_list)]:
                rows.append(per_list[i % len(per_list)].pop(0))
            i += 1
        return rows
    return [r for cur in per_list for r in cur]


def to_sheets(form):
    """abstract form -> ordered {sheet_name: (header list, row dict list)}."""
    sheets = {}
    srows = flatten_rows(form.get("nodes", []))
    shead = form.get("survey_header") or header_of(srows, ("type", "name"))
    order = form.get("survey_col_order")
    if order:
        # a permutation given as a list of sort keys (one per column, by index modulo its length)
        shead = [h for _, _, h in sorted((order[i % len(order)], i, h) for i, h in enumerate(shead))]
    alias = form.get("survey_alias")
    if alias:
        def ren(col):
            base, sep, rest = col.partition("::")
            return alias.get(col) or (alias[base] + sep + rest if base in alias else col)
        shead = [ren(h) for h in shead]
        srows = [{ren(k): v for k, v in r.items()} for r in srows]
    if order:
        srows = [{h: r[h] for h in shead if h in r} for r in srows]
    if "survey_absent" not in form:
        sheets["survey"] = (shead, srows)
    crows = choices_rows(form)
    if crows or form.get("choices_header"):
        sheets["choices"] = (form.get("choices_header") or header_of(crows), crows)
    if form.get("settings"):
        st = form["settings"]
        # settings_header_extra: columns present in the header whose cell is empty; settings_blank_rows: empty rows above the settings row
        head = list(st)
        for i, h in enumerate(form.get("settings_header_extra", [])):
            head.insert(0 if i % 2 == 0 else len(head), h)
        # settings_rows_extra: further rows below the settings row (only the first row with content is used)
        sheets["settings"] = (head, [{} for _ in range(form.get("settings_blank_rows", 0))] + [dict(st)] + [dict(r) for r in form.get("settings_rows_extra", [])])
    elif form.get("settings_header_only"):
        # the sheet exists and has its header row, nothing is filled in yet
        sheets["settings"] = (list(form["settings_header_only"]), [])
    if form.get("ext"):
        sheets["external_choices"] = (form.get("ext_header") or header_of(form["ext"]), [dict(r) for r in form["ext"]])
    if form.get("entities"):
        sheets["entities"] = (header_of(form["entities"]), [dict(r) for r in form["entities"]])
    if form.get("osm"):
        sheets["osm"] = (header_of(form["osm"]), [dict(r) for r in form["osm"]])
    order = form.get("sheet_order")
    if order:
        sheets = {k: sheets[k] for k in order if k in sheets} | {k: v for k, v in sheets.items() if k not in order}
    return sheets


def to_workbook_dict(form, with_headers=True):
    """abstract form -> the documented dict input of pyxform.convert().
    Row dicts list their cells in header order, as every file back end produces them."""
    wb = {}
    names = []
    for name, (head, rows) in to_sheets(form).items():
        pos = {h: i for i, h in enumerate(head)}
        wb[name] = [dict(sorted(r.items(), key=lambda kv: pos.get(kv[0], len(pos)))) for r in rows]
        if name in form.get("empty_cells", {}):
            # a dict workbook built the csv.DictReader way: every row has every column, "" where the sheet has nothing
            cols = list(head) + [c for c in form["empty_cells"][name] if c not in head]
            wb[name] = [({c: r.get(c, "") for c in cols} if r else r) for r in wb[name]]
            head = cols
        if with_headers:
            wb[name + "_header"] = [{h: None for h in head}]
        names.append(form.get("sheet_names", {}).get(name, name))
    names.extend(form.get("extra_sheets", []))
    wb["sheet_names"] = names
    return wb


# ---------------------------------------------------------------- tree helpers


def walk(nodes, path=()):
    """yield (node, ancestors tuple) in document order (containers before children)."""
    for n in nodes:
        yield n, path
        if n["k"] in ("g", "r"):
            yield from walk(n.get("ch", []), (*path, n))


def find_named(form):
    """name -> list of (node, ancestors)."""
    out = {}
    for n, anc in walk(form.get("nodes", [])):
        nm = n["c"].get("name")
        if nm is not None and n["k"] != "x":
            out.setdefault(nm, []).append((n, anc))
    return out


def refs_in(text):
    return [(m.group(1) is not None, m.group(2)) for m in REF_RE.finditer(text or "")]


def clone(x):
    return copy.deepcopy(x)
