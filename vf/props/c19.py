"""C19 -- entity declarations follow the documented create/update decision table."""

from __future__ import annotations

import itertools

from hypothesis import strategies as st

from vf import common, gen, model, xform
from vf.ref import expect, refs
from vf.runner import Outcome, crash_sig
from vf.xform import ENT, XF, q

ID = "C19"
LEVEL = "exploration"
RULE = ("exhaustive over the 16 presence patterns of (entity_id, create_if, update_if, label) x 3 form shapes x save_to placements; "
        "plus Hypothesis random forms: generated expressions with references into groups, save_to on 0-4 questions anywhere (root, "
        "group, repeat, on a group row), dataset/property names from {valid, __reserved, with '.', invalid XML name, name, label, "
        "case variants}, 1-2 entity rows, unknown columns, list_name alias; non-trivial = every case (each exercises the table); "
        "distinct by SHA-1 of the case JSON")
ASSUMPTIONS = ["decision table restated from the ODK entities specification in this module (ACCEPT), not imported"]
BUDGET = {"quick": 8000, "thorough": 200000}
EXHAUSTIVE = {"quick": True, "thorough": True}
EXHAUSTIVE_NOTE = "exhaustive over the 16 presence patterns only; expressions, placements and names are sampled"

COLS = ("entity_id", "create_if", "update_if", "label")


def accepted(p):
    """(id, create_if, update_if, label) presence -> accepted?  Restated from the spec's table."""
    i, c, u, l = p
    if u and not i:
        return False  # updating needs an id
    if i and c and not u:
        return False  # id + create condition needs an update condition too
    if not i and not l:
        return False  # creating needs a label
    return True


def base_form(shape):
    nodes = [{"k": "q", "c": {"type": "text", "name": "a", "label": "A"}}]
    if shape >= 1:
        nodes.append({"k": "g", "c": {"name": "grp", "label": "G"}, "ch": [{"k": "q", "c": {"type": "text", "name": "b", "label": "B"}}]})
    if shape >= 2:
        nodes.append({"k": "r", "c": {"name": "rep", "label": "R"}, "ch": [{"k": "q", "c": {"type": "text", "name": "c", "label": "C"}}]})
    return {"nodes": nodes, "args": {}}


def enumerate_cases(tier):
    for pat in itertools.product((0, 1), repeat=4):
        for shape in range(3):
            for saveto in (0, 1):
                form = base_form(shape)
                ref = "b" if shape >= 1 else "a"
                row = {"dataset": "people"}
                vals = {"entity_id": "${a}", "create_if": "${%s} = 'new'" % ref, "update_if": "${%s} = 'old'" % ref, "label": "concat(${a}, ' ', ${%s})" % ref}
                for col, on in zip(COLS, pat):
                    if on:
                        row[col] = vals[col]
                form["entities"] = [row]
                if saveto:
                    form["nodes"][0]["c"]["save_to"] = "prop_a"
                    if shape >= 1:
                        form["nodes"][1]["ch"][0]["c"]["save_to"] = "prop_b"
                yield {"form": form, "meta": {"pattern": list(pat)}}


SPELLINGS = {"g": [("begin group", "end group"), ("begin_group", "end_group"), ("Begin Group", "End Group"), ("begin group extra", "end group"),
                   ("begin loop over LIST", "end loop"), ("begin_loop over LIST", "end_loop")],
             "r": [("begin repeat", "end repeat"), ("begin_repeat", "end_repeat"), ("begin lgroup", "end lgroup"), ("begin looped group", "end looped group")]}
BAD_DATASET = {"__people": "reserved", "peo.ple": "period", "1people": "invalid", "peo ple": "invalid", "$x": "invalid"}
BAD_PROP = {"name": "reserved", "Label": "reserved", "NAME": "reserved", "__x": "reserved-prefix", "1x": "invalid", "a b": "invalid"}


@st.composite
def _cases(draw):
    prof = dict(gen.PROFILES["broad"], p_entities=0, p_external=0, max_rows=10, text="plain", p_multilang=0.1, p_logic=0.2, p_params=0.7)
    g = gen.G(draw, prof)
    form = gen.build_form(draw, prof, g=g)
    # list names that contain the words of container types (the save_to placement rule is about rows, not list names)
    if g.lists and g.p("_", 0.3):
        lst = g.pick(g.lists)
        old_, new_ = lst["name"], g.pick(["age_group", "repeat_visits", "groups", "begin_group_kind", "repeat"])
        if not any(x["name"] == new_ for x in g.lists):
            lst["name"] = new_
            for n, _ in model.walk(form["nodes"]):
                t = n["c"].get("type", "").split(" ")
                if len(t) >= 2 and t[1] == old_:
                    t[1] = new_
                    n["c"]["type"] = " ".join(t)
    qs = [(n, anc) for n, anc in model.walk(form["nodes"]) if n["k"] == "q" and n["c"]["type"].split()[0] in ("text", "integer", "decimal", "select_one", "date", "geopoint", "geotrace", "geoshape",
                                                                                                               "image", "audio", "range", "barcode", "time", "dateTime", "select_multiple")]
    names = [n["c"]["name"] for n, _ in qs] or None
    pat = tuple(g.integer(0, 1) for _ in range(4))
    row = {}
    meta = {"pattern": list(pat), "bad": []}
    ds = g.pick(["people", "trees", "ds_1", "a-b", "Households"])
    if g.p("_", 0.15):
        ds = g.pick(list(BAD_DATASET))
        meta["bad"].append("dataset:" + BAD_DATASET[ds])
    row[g.pick(["dataset", "dataset", "list_name"])] = ds
    r = (lambda: "${%s}" % g.pick(names)) if names else (lambda: "'x'")
    # string literals with runs of spaces in them (a separator, a padded code): part of the expression, copied as typed
    lit = lambda: g.pick(["'not  registered'", "'    '", "'  #'", "'a   b  c'"]) if g.p("_", 0.3) else g.lit()  # noqa: E731
    vals = {"entity_id": r() if g.p("_", 0.7) else f"concat({r()}, {lit()}, {r()})", "create_if": f"{r()} = {lit()}", "update_if": f"{r()} != {lit()}",
            "label": f"concat({r()}, {lit()})"}
    for col, on in zip(COLS, pat):
        if on:
            row[col] = vals[col]
    if g.p("_", 0.08):
        row[g.pick(["entity_name", "what", "repeat"])] = "x"
        meta["bad"].append("unknown-column")
    if g.p("_", 0.08):
        col = g.pick([c for c in COLS if c in row] or ["label"])
        row[col + g.pick(["::English (en)", "::x", ":: y"])] = row.pop(col, "'v'")
        meta["bad"].append("unknown-column")
    form["entities"] = [row]
    if g.p("_", 0.1):
        # an empty row above the declaration (spreadsheet readers keep empty rows)
        form["entities"].insert(0, {})
        meta["blank_row"] = True
    if g.p("_", 0.06):
        form["entities"].append({"dataset": "second", "label": "'l'"})
        meta["bad"].append("two-rows")
    if names and g.p("_", 0.12):
        # a question may be called like the generated meta/entity node: ${entity} still means the question
        old_name = g.pick(names)
        if not any(n_["c"].get("name") == "entity" for n_, _ in model.walk(form["nodes"])):
            for n_, _ in model.walk(form["nodes"]):
                for kk, vv in list(n_["c"].items()):
                    if kk == "name" and vv == old_name:
                        n_["c"][kk] = "entity"
                    elif isinstance(vv, str) and "{%s}" % old_name in vv:
                        n_["c"][kk] = vv.replace("{%s}" % old_name, "{entity}")
            for kk, vv in list(row.items()):
                row[kk] = vv.replace("{%s}" % old_name, "{entity}")
            meta["entity_named_question"] = True
    k = g.integer(0, 4)
    cont = [(n, anc) for n, anc in model.walk(form["nodes"]) if n["k"] in ("g", "r")]
    for _ in range(k):
        if g.p("_", 0.12) and cont:
            n, anc = g.pick(cont)
            # every documented spelling of the container rows; the cell may sit on the begin row or on the end row
            if g.p("_", 0.5):
                b, e = g.pick(SPELLINGS[n["k"]])
                if "LIST" in b:
                    # a loop needs a choice list to run over
                    if not form.get("lists"):
                        form["lists"] = [{"name": "lp", "rows": [{"name": "c1", "label": "One"}]}]
                    b = b.replace("LIST", form["lists"][0]["name"])
                n["c"]["type"] = b
                n["end"] = {"type": e}
            if g.p("_", 0.25):
                n.setdefault("end", {"type": model.END[n["k"]]})["save_to"] = g.name("p")
            else:
                n["c"]["save_to"] = g.name("p")
            meta["bad"].append("saveto-on-container")
            continue
        if g.p("_", 0.06):
            # a row that only declares a data source has no node or bind to carry a property
            form["nodes"].append({"k": "q", "c": {"type": g.pick(["csv-external", "xml-external"]), "name": g.name("ext"), "save_to": g.name("p")}})
            meta["bad"].append("saveto-on-external-instance")
            continue
        if g.p("_", 0.06) and not any(n_["c"].get("type") == "audit" for n_, _ in model.walk(form["nodes"])):
            # the audit row is a survey row like any other for the save_to checks
            prop = g.name("p") if g.p("_", 0.4) else g.pick(list(BAD_PROP))
            form["nodes"].append({"k": "q", "c": {"type": "audit", "name": "audit", "save_to": prop}})
            if prop in BAD_PROP:
                meta["bad"].append("saveto:" + BAD_PROP[prop])
            continue
        if not qs:
            break
        n, anc = g.pick(qs)
        prop = g.name("p") if g.p("_", 0.7) else g.pick(["geo.lat", "v1.2", "a-b", "_x", "Prop.Name-1"]) + str(g.integer(0, 99))
        if g.p("_", 0.15):
            prop = g.pick(list(BAD_PROP))
            meta["bad"].append("saveto:" + BAD_PROP[prop])
        n["c"]["save_to"] = prop
        if any(a["k"] == "r" for a in anc):
            meta["bad"].append("saveto-in-repeat")
    if g.p("_", 0.05):
        del form["entities"]
        meta["bad"] = ["no-entities-sheet"] if any("save_to" in n["c"] for n, _ in model.walk(form["nodes"])) else []
        meta["no_sheet"] = True
    if form.get("entities") and g.p("_", 0.15):
        # a dict workbook whose entities rows keep every column, "" where nothing was typed: an empty cell is no cell
        form["empty_cells"] = {"entities": list(COLS)}
    elif g.p("_", 0.15):
        # the workbook as a spreadsheet file; the sheets other than survey may be hidden in it (a hidden sheet is still a sheet)
        form["carrier"] = {"fmt": g.pick(["xlsx", "xlsx", "xls"]), "seed": g.integer(0, 9999)}
    return {"form": form, "meta": meta}


def strategy(tier):
    return _cases()


def _recompute_meta(form, meta):
    """the shrinker may delete cells: recompute what the case plants from the form itself"""
    m = {"bad": [], "no_sheet": "entities" not in form}
    ents = [r for r in form.get("entities") or [] if r]
    if ents:
        row = ents[0]
        m["pattern"] = [int(bool(row.get(c))) for c in COLS]
        ds = row.get("dataset", row.get("list_name"))
        if ds is None:
            m["bad"].append("dataset:missing")
        elif ds in BAD_DATASET:
            m["bad"].append("dataset:" + BAD_DATASET[ds])
        if any(k not in ("dataset", "list_name", *COLS) for k in row):
            m["bad"].append("unknown-column")
        if len(ents) > 1:
            m["bad"].append("two-rows")
    for n, anc in model.walk(form.get("nodes", [])):
        if n["k"] in ("g", "r") and "save_to" in n.get("end", {}):
            if not ents:
                m["bad"].append("no-entities-sheet")
            m["bad"].append("saveto-on-container")
        if "save_to" in n["c"]:
            if not ents:
                m["bad"].append("no-entities-sheet")
            if n["k"] in ("g", "r"):
                m["bad"].append("saveto-on-container")
            elif n["c"].get("type", "").split(" ")[0] in ("csv-external", "xml-external"):
                m["bad"].append("saveto-on-external-instance")
            elif n["c"].get("type") == "audit":
                if n["c"]["save_to"] in BAD_PROP:
                    m["bad"].append("saveto:" + BAD_PROP[n["c"]["save_to"]])
            else:
                if any(a["k"] == "r" for a in anc):
                    m["bad"].append("saveto-in-repeat")
                if n["c"]["save_to"] in BAD_PROP:
                    m["bad"].append("saveto:" + BAD_PROP[n["c"]["save_to"]])
    return m


def evaluate(case) -> Outcome:
    out = Outcome()
    form = case["form"]
    meta = _recompute_meta(form, case.get("meta", {}))
    status, res = common.run_form(form)
    out.nontrivial = True
    if status == "crash":
        out.label("outcome:crash:" + crash_sig(res))
        return out
    pat = tuple(meta.get("pattern", (0, 0, 0, 0)))
    has_sheet = not meta["no_sheet"]
    should_accept = (not meta["bad"]) and (not has_sheet or accepted(pat))
    if has_sheet:
        out.label("pattern:" + "".join(map(str, pat)))
    for b in meta["bad"]:
        out.label("bad:" + b)
    out.checked("C19.decision")
    if status == "rejected":
        if should_accept:
            # other, unrelated reasons to reject a random form are not this property's business
            msg = str(res)
            if "entit" in msg.lower() or "save_to" in msg:
                out.fail("C19.decision", "rejected-valid:" + "".join(map(str, pat)), f"pattern {pat} should be accepted: {msg}")
            else:
                out.label("outcome:rejected-unrelated:" + common.err_class(res))
        return out
    if not should_accept:
        why = meta["bad"][0] if meta["bad"] else "pattern:" + "".join(map(str, pat))
        out.fail("C19.decision", "accepted-invalid:" + why, f"should be rejected ({why}); entities={form.get('entities')}")
        return out
    try:
        v = xform.XFormView(res.xform)
    except xform.IllFormed:
        out.label("unparseable (C01's business)")
        return out
    check_accepted(out, form, v, pat, has_sheet)
    return out


def check_accepted(out, form, v, pat, has_sheet):
    root = expect.build(form)
    names = expect.by_name(root)
    rp = root.path
    prim = v.primary
    meta = next((e for e in xform.elems(prim) if xform.local(e) == "meta"), None)
    ent = next((e for e in xform.elems(meta) if xform.local(e) == "entity"), None) if meta is not None else None
    model_el = v.model
    ver = model_el.get(f"{{{ENT}}}entities-version")
    declared = "entities" in v.root.nsmap and v.root.nsmap["entities"] == ENT
    out.checked("C19.namespace-version")
    if has_sheet != (ent is not None) or has_sheet != (ver is not None) or (has_sheet and not declared) or (not has_sheet and ENT in v.root.nsmap.values()):
        out.fail("C19.namespace-version", "", f"entities sheet {'present' if has_sheet else 'absent'}: entity node {ent is not None}, entities-version {ver!r}, xmlns:entities declared {declared}")
    inst = v.live_instance()
    bm = v.bind_map()
    # save_to
    out.checked("C19.saveto")
    want_saveto = {}
    for n in root.walk():
        if n.src is not None and "save_to" in n.cells:
            want_saveto[n.path] = n.cells["save_to"]
    for ns, binds in bm.items():
        got = binds[0].get(f"{{{ENT}}}saveto")
        if got != want_saveto.get(ns):
            out.fail("C19.saveto", "wrong-bind" if got is not None else "missing", f"bind {ns}: entities:saveto={got!r}, expected {want_saveto.get(ns)!r}")
    if not has_sheet or ent is None:
        return
    i, c, u, l = pat
    row = [r for r in form["entities"] if r][0]
    ds = row.get("dataset", row.get("list_name"))
    # attributes of meta/entity
    want_attrs = {"dataset": ds, "id": ""}
    if i:
        want_attrs.update({"update": "1", "baseVersion": "", "trunkVersion": "", "branchId": ""})
    if c or (not u and not i):
        want_attrs["create"] = "1"
    out.checked("C19.entity-attrs")
    got_attrs = xform.attrs(ent)
    if got_attrs != want_attrs:
        k = sorted(set(got_attrs.items()) ^ set(want_attrs.items()))[0][0]
        out.fail("C19.entity-attrs", k, f"pattern {pat}: entity attributes {got_attrs}, expected {want_attrs}")
    kids = [xform.local(e) for e in xform.elems(ent)]
    if kids != (["label"] if l else []):
        out.fail("C19.entity-attrs", "label-child", f"pattern {pat}: entity children {kids}")
    ep = f"{rp}/meta/entity"
    ctx = xform.resolve(inst, ep)
    ctx = ctx[0] if len(ctx) == 1 else None
    want_binds = {f"{ep}/@id": {"type": "string", "readonly": "true()"}}
    if i:
        want_binds[f"{ep}/@id"]["calculate"] = ("expr", row["entity_id"])
        e = f"instance('{ds}')/root/item[name={row['entity_id']}]"
        want_binds[f"{ep}/@baseVersion"] = {"type": "string", "readonly": "true()", "calculate": ("expr", f"{e}/__version")}
        want_binds[f"{ep}/@trunkVersion"] = {"type": "string", "readonly": "true()", "calculate": ("expr", f"{e}/__trunkVersion")}
        want_binds[f"{ep}/@branchId"] = {"type": "string", "readonly": "true()", "calculate": ("expr", f"{e}/__branchId")}
    if c:
        want_binds[f"{ep}/@create"] = {"type": "string", "readonly": "true()", "calculate": ("expr", row["create_if"])}
    if u:
        want_binds[f"{ep}/@update"] = {"type": "string", "readonly": "true()", "calculate": ("expr", row["update_if"])}
    if l:
        want_binds[f"{ep}/label"] = {"type": "string", "readonly": "true()", "calculate": ("expr", row["label"])}
    got_binds = {ns: {k: val for k, val in xform.attrs(b[0]).items() if k != "nodeset"} for ns, b in bm.items() if ns.startswith(ep)}
    out.checked("C19.binds")
    for ns, b in bm.items():
        if ns.startswith(ep) and len(b) > 1:
            out.fail("C19.binds", "duplicate:" + ns.rsplit("/", 1)[-1], f"pattern {pat}: {len(b)} binds for {ns}")
    if set(got_binds) != set(want_binds):
        d = sorted(set(got_binds) ^ set(want_binds))[0]
        out.fail("C19.binds", ("extra:" if d in got_binds else "missing:") + d.rsplit("/", 1)[-1], f"pattern {pat}: entity binds {sorted(got_binds)}, expected {sorted(want_binds)}")
    for ns, wa in want_binds.items():
        ga = got_binds.get(ns)
        if ga is None:
            continue
        for k in set(wa) | set(ga):
            w_, g_ = wa.get(k), ga.get(k)
            if isinstance(w_, tuple):
                src = common.survey_clean(w_[1]) if False else w_[1]
                toks = refs.match_substituted(src, g_ or "")
                if g_ is None or toks is None:
                    out.fail("C19.binds", "calculate:" + ns.rsplit("/", 1)[-1], f"{ns}@{k}: {g_!r} is not {src!r} substituted")
                    continue
                _, rr = refs.split_source(src)
                for tok, (ls, name) in zip(toks, rr):
                    tgt = names.get(name)
                    if tgt and len(tgt) == 1:
                        bad = refs.check_token(tok, inst, ctx, tgt[0].path, last_saved=ls)
                        if bad:
                            out.fail("C19.binds", "ref:" + bad[0], f"{ns}@{k}: {bad[1]}")
            elif w_ != g_:
                out.fail("C19.binds", f"attr:{k}", f"{ns}@{k}: {g_!r}, expected {w_!r}")
    # id setvalue
    svs = [e for e in v.root.iter(q(XF, "setvalue")) if e.get("ref") == f"{ep}/@id"]
    want_sv = bool(c or not i)
    out.checked("C19.id-setvalue")
    if want_sv != (len(svs) == 1) or (svs and (svs[0].get("value") != "uuid()" or svs[0].get("event") != "odk-instance-first-load" or svs[0].getparent() is not v.model)):
        out.fail("C19.id-setvalue", "present" if svs else "absent", f"pattern {pat}: {len(svs)} uuid() setvalue(s) on @id, expected {int(want_sv)}")
