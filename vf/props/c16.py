"""C16 -- the JSON intermediate form is a faithful, reloadable representation."""

from __future__ import annotations

import copy
import json

from hypothesis import strategies as st
from pyxform.builder import create_survey_element_from_dict, create_survey_element_from_json
from pyxform.errors import PyXFormError
from pyxform.xls2json import workbook_to_json
from pyxform.xls2json_backends import get_xlsform

from vf import common, gen, model, xform
from vf.runner import Outcome, crash_sig

ID = "C16"
LEVEL = "exploration"
RULE = ("Hypothesis-generated forms (broad profile weighted towards group/repeat logic, extra choice columns, parameters, "
        "translations, media, settings, entities, triggers); round trips: workbook->JSON dict->text->dict->survey->XForm vs "
        "direct; survey->to_json_dict->text->survey->XForm and dump stability; non-trivial = accepted form with >=1 of "
        "{group/repeat logic, extra choice column, parameters, >=2 languages}; distinct by SHA-1 of the case JSON")
ASSUMPTIONS = ["XForms are compared as canonical trees (attribute order ignored)",
               "to_xml(validate=False, pretty_print=False) is the generator on both sides"]
BUDGET = {"quick": 10000, "thorough": 300000}


@st.composite
def _cases(draw):
    prof = dict(gen.PROFILES["broad"], p_group_logic=0.5, p_extra_cols=0.5, p_params=0.6, p_multilang=0.6, p_media=0.2,
                settings="some", p_entities=0.2, p_trigger=0.15, p_choice_media=0.2, p_or_other=0.15, p_choice_filter=0.3,
                extra_col_names=["parent", "e0", "kind", "extra_data"], p_hint=0.4, p_osm=0.06, odd_list_names=True, max_lists=4, p_search=0.08, p_add_none_option=0.06)
    g = gen.G(draw, prof)
    form = gen.build_form(draw, prof, g=g)
    # the type dictionary's legacy entries (some carry a default hint or bind of their own)
    for n, _ in model.walk(form["nodes"]):
        if n["k"] == "q" and n["c"].get("type") == "text" and g.p("_", 0.06):
            n["c"]["type"] = g.pick(LEGACY_TYPES)
            for k in [k for k in n["c"] if k.split("::")[0] in ("parameters", "appearance", "default")]:
                del n["c"][k]
            if g.p("_", 0.5) and not any(k.split("::")[0] == "hint" for k in n["c"]):
                n["c"]["hint"] = g.text("H")       # the author's own hint on a type that has a default hint
    for n, _ in model.walk(form["nodes"]):
        # a container row whose only logic column is one a client may ignore on groups (required, readonly, a custom bind attribute)
        if n["k"] in ("g", "r") and not any(k.split("::")[0] in ("relevant", "required", "readonly", "bind") for k in n["c"]) and g.p("_", 0.12):
            k_, v_ = g.pick([("required", "yes"), ("required", "${%s} = 1" % n["c"]["name"] if False else "true()"), ("readonly", "yes"), ("bind::custom", "x"), ("required_message", "fill the group")])
            n["c"][k_] = v_
    if g.p("_", 0.08) and not any(n["k"] == "r" for n, _ in model.walk(form["nodes"])):
        form.setdefault("settings", {})["flat"] = "yes"      # the legacy flat setting annotates every group in the JSON form
    return {"form": form}


LEGACY_TYPES = ["phone number", "number of days in last month", "number of days in last six months", "number of days in last year",
                "percentage", "add text prompt", "add integer prompt", "add decimal prompt", "q string", "q int", "string", "add note prompt"]


def strategy(tier):
    return _cases()


def diff_kind(x1: str, x2: str) -> str:
    """root-cause oriented description of how two XForms differ"""
    try:
        a, b = xform.canon(xform.parse(x1)), xform.canon(xform.parse(x2))
    except xform.IllFormed:
        return "unparseable", ""
    d = xform.canon_diff(a, b) or "identical-trees-different-bytes"
    # classify
    kind = "other"
    if "/model" in d and "child count" in d:
        kind = "model-children"
    if ": attr " in d:
        kind = "attr:" + d.split(": attr ")[1].split(":")[0].strip()
    elif ": text " in d:
        kind = "text@" + d.split(":")[0].rsplit("/", 1)[-1]
    elif "child count" in d:
        kind = "children@" + d.split(":")[0].rsplit("/", 1)[-1]
    return kind, d


def evaluate(case) -> Outcome:
    out = Outcome()
    form = case["form"]
    wb = model.to_workbook_dict(form)
    args = {k: v for k, v in form.get("args", {}).items() if k in ("form_name", "default_language")}
    try:
        w = []
        dd = get_xlsform(copy.deepcopy(wb))
        js = workbook_to_json(dd, form_name=args.get("form_name"), fallback_form_name=dd.fallback_form_name,
                              default_language=args.get("default_language"), warnings=w)
        js_text = json.dumps(js)
        direct_survey = create_survey_element_from_dict(copy.deepcopy(js))
        direct = direct_survey.to_xml(validate=False, pretty_print=False)
    except PyXFormError as e:
        out.label("outcome:rejected:" + common.err_class(e))
        return out
    except Exception as e:  # noqa: BLE001
        out.label("outcome:crash:" + crash_sig(e))
        return out
    out.label("outcome:accepted")
    # (1) workbook JSON -> text -> dict -> survey -> XForm == direct
    out.checked("C16.rt1")
    try:
        s2 = create_survey_element_from_dict(json.loads(js_text))
        x2 = s2.to_xml(validate=False, pretty_print=False)
        if x2 != direct:
            k, d = diff_kind(direct, x2)
            out.fail("C16.rt1", k, d)
    except Exception as e:  # noqa: BLE001
        out.fail("C16.rt1", "raises:" + crash_sig(e), repr(e))
    # (2) survey.to_json_dict -> text -> survey -> XForm == direct; (4) serialisable
    out.checked("C16.rt2")
    dump1 = None
    try:
        fresh = create_survey_element_from_dict(json.loads(js_text))
        dump1 = fresh.to_json_dict()
        t1 = json.dumps(dump1)
    except Exception as e:  # noqa: BLE001
        out.fail("C16.serialisable", crash_sig(e), repr(e))
        t1 = None
    if t1 is not None:
        try:
            s3 = create_survey_element_from_dict(json.loads(t1))
            x3 = s3.to_xml(validate=False, pretty_print=False)
            if x3 != direct:
                k, d = diff_kind(direct, x3)
                out.fail("C16.rt2", k, d)
            # the JSON-text loader is the documented way back in
            out.checked("C16.rt2-json-loader")
            x5 = create_survey_element_from_json(t1).to_xml(validate=False, pretty_print=False)
            if x5 != direct:
                k, d = diff_kind(direct, x5)
                out.fail("C16.rt2-json-loader", k, d)
            # the survey's own dump must reload to the same form whenever it is taken -- also after the XML has been generated
            out.checked("C16.dump-after-to-xml")
            try:
                after = json.dumps(direct_survey.to_json_dict())
                x6 = create_survey_element_from_dict(json.loads(after)).to_xml(validate=False, pretty_print=False)
                if x6 != direct:
                    k, d = diff_kind(direct, x6)
                    out.fail("C16.dump-after-to-xml", k, d)
            except Exception as e:  # noqa: BLE001
                out.fail("C16.dump-after-to-xml", "raises:" + crash_sig(e), repr(e))
            # the survey's own text dumps: to_json() and json_dump(path) are the documented writers
            out.checked("C16.to-json-text")
            try:
                x7 = create_survey_element_from_json(fresh.to_json()).to_xml(validate=False, pretty_print=False)
                if x7 != direct:
                    k, d = diff_kind(direct, x7)
                    out.fail("C16.to-json-text", k, d)
            except Exception as e:  # noqa: BLE001
                out.fail("C16.to-json-text", "raises:" + crash_sig(e), repr(e))
            # (3) dump - load - dump stability
            out.checked("C16.stable")
            s4 = create_survey_element_from_dict(json.loads(t1))
            dump2 = s4.to_json_dict()
            if json.loads(json.dumps(dump2)) != json.loads(t1):
                out.fail("C16.stable", _json_diff(json.loads(t1), json.loads(json.dumps(dump2))), "dump differs after load")
        except Exception as e:  # noqa: BLE001
            out.fail("C16.rt2", "raises:" + crash_sig(e), repr(e))
    feats = []
    for n, _ in model.walk(form["nodes"]):
        if n["k"] in ("g", "r") and any(k in n["c"] for k in ("relevant", "repeat_count")):
            feats.append("section-logic")
        if "parameters" in n["c"]:
            feats.append("parameters")
    if any(k.startswith("e") or k in ("parent", "kind") for lst in form.get("lists", []) for r in lst["rows"] for k in r):
        feats.append("extra-choice-col")
    if len(form.get("_langs", [])) >= 2:
        feats.append("multi-lang")
    out.label(*set(feats))
    out.nontrivial = bool(feats)
    return out


def _json_diff(a, b, path=""):
    if type(a) is not type(b):
        return f"{path}:type"
    if isinstance(a, dict):
        for k in sorted(set(a) | set(b)):
            if k not in a or k not in b:
                return f"{_generic(path)}/{k}:missing"
            d = _json_diff(a[k], b[k], f"{path}/{k}")
            if d:
                return d
        return ""
    if isinstance(a, list):
        if len(a) != len(b):
            return f"{_generic(path)}:len"
        for i, (x, y) in enumerate(zip(a, b)):
            d = _json_diff(x, y, f"{path}[]")
            if d:
                return d
        return ""
    return "" if a == b else f"{_generic(path)}:value"


def _generic(path):
    import re
    return re.sub(r"/children(\[\])?", "/ch", path)[-60:]
