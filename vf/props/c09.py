"""C09 -- choice lists survive intact and selects are wired to their own list."""

from __future__ import annotations

import csv
import io
import os
import re

from hypothesis import strategies as st

from vf import common, gen, model, xform
from vf.props.c04 import parse_params
from vf.ref import expect, itext, refs
from vf.ref import typetable as tt
from vf.runner import Outcome, crash_sig
from vf.xform import XF, q

ID = "C09"
LEVEL = "exploration"
RULE = ("Hypothesis-generated forms (choices profile: 1-5 lists of 1-8 choices, shared/unused lists, sparse extra columns, "
        "per-language labels and media, duplicate names with allow_choice_duplicates; select_one/multiple/rank with choice_filter, "
        "randomize/seed, or_other, search(); select-from-file csv/xml/geojson with value/label parameters, xml-/csv-external rows, "
        "pulldata(), last-saved; select_one_external with sparse external_choices rows); non-trivial = accepted form with >=2 "
        "lists or >=1 external source, and >=1 sparse extra column; distinct by SHA-1 of the case JSON")
ASSUMPTIONS = ["reference model of secondary instances and itemsets restated from the XLSForm docs (vf/props/c09.py)",
               "select-from-repeat (select_one ${q}) is not generated here"]
BUDGET = {"quick": 12000, "thorough": 400000}

NON_EXTRA = {"list_name", "list name", "name", "label", "image", "audio", "video", "big-image", "sms_option"}


@st.composite
def _cases(draw):
    prof = dict(gen.PROFILES["choices"], odd_list_names=True, p_search=0.1, p_pulldata=0.1, p_last_saved=0.08, p_multilang=0.4, p_table_list=0.05,
                p_choice_nolabel=0.05, settings="some", p_entities=0.0, p_choice_label_ref=0.08, p_custom_instance=0.15)
    g = gen.G(draw, prof)
    form = gen.build_form(draw, prof, g=g)
    if g.lists and g.p("_", 0.12):
        # an extra column spelled like a word the converter uses internally: a column like any other, spelling kept
        cname = g.pick(["Parent", "Extra_Data", "PARENT", "Children", "Itemset", "Name2"])
        lst = g.pick(g.lists)
        for r in lst["rows"]:
            if g.p("_", 0.8):
                r[cname] = g.pick(["tx", "wa", "x1"])
    if g.lists and g.p("_", 0.15):
        lst = g.pick(g.lists)
        if len(lst["rows"]) >= 2:
            lst["rows"][-1]["name"] = lst["rows"][0]["name"]
            form.setdefault("settings", {})["allow_choice_duplicates"] = "yes"
    if g.p("_", 0.25):
        # select_one_external + external_choices sheet with sparse rows
        cols = ["state", "county"][: g.integer(1, 2)]
        ext = []
        for ln in ["cities", "wards"][: g.integer(1, 2)]:
            for i in range(g.integer(1, 4)):
                r = {"list_name": ln, "name": f"{ln}{i}"}
                if g.p("_", 0.8):
                    r["label"] = g.text("xl")
                for cname in cols:
                    if g.p("_", 0.7):
                        r[cname] = g.pick(["tx", "wa", "king", "pierce"])
                ext.append(r)
        form["ext"] = ext
        form["ext_header"] = ["list_name", "name", "label", *cols]
        for ln in sorted({r["list_name"] for r in ext}):
            c = {"type": f"select_one_external {ln}", "name": g.name(), "label": g.text("L")}
            if g.p("_", 0.85):
                c["choice_filter"] = " and ".join(f"{cn}=${{{g.pick(g.names)}}}" if g.names and g.p("_", 0.7) else f"{cn}='tx'" for cn in cols)
            conts = [n for n, _ in model.walk(form["nodes"]) if n["k"] in ("g", "r") and not n["c"].get("appearance", "").startswith("table-list")]
            if conts and g.p("_", 0.5):
                home = g.pick(conts)
                # inside a repeat the filter should be able to name a question of the same repeat
                inner = [ch["c"]["name"] for ch in home["ch"] if ch["k"] == "q" and ch["c"].get("type", "").split(" ")[0] in ("text", "integer", "select_one")]
                if inner and "choice_filter" in c and g.p("_", 0.7):
                    c["choice_filter"] = f"{cols[0]}=${{{g.pick(inner)}}}"
                home["ch"].append({"k": "q", "c": c})
            else:
                form["nodes"].append({"k": "q", "c": c})
    if g.p("_", 0.1) and "entities" not in form:
        # the entities sheet holds expressions too: its data sources need declaring like any other
        top = [n["c"]["name"] for n in form["nodes"] if n["k"] == "q" and n["c"].get("type", "").split(" ")[0] in ("text", "integer")]
        ref = "${%s}" % g.pick(top) if top else "'k'"
        row = {"dataset": "trees", "label": g.pick([f"pulldata('el', 'n', 'k', {ref})", f"concat(${{last-saved#{top[0]}}}, ' again')" if top else "'x'", "'plain'"])}
        if g.p("_", 0.5):
            row["create_if"] = f"pulldata{g.pick(['', ' '])}('ec', 'n', 'k', {ref}) = '1'"
        form["entities"] = [row]
    # lists whose rows are not contiguous on the sheet
    if len(g.lists) >= 2 and g.p("_", 0.25):
        form["choices_interleave"] = True
    # a list name with a dot (the stem/extension split must only apply to select-from-file names)
    if g.lists and g.p("_", 0.15):
        lst = g.pick(g.lists)
        old, new = lst["name"], lst["name"] + g.pick([".2024", ".v2", ".0"])
        lst["name"] = new
        for n, _ in model.walk(form["nodes"]):
            t = n["c"].get("type", "").split(" ")
            if len(t) >= 2 and t[1] == old:
                t[1] = new
                n["c"]["type"] = " ".join(t)
    # an or_other select whose list already has its own 'other' choice somewhere but last
    for n, _ in model.walk(form["nodes"]):
        t = n["c"].get("type", "").split(" ")
        if t[-1:] == ["or_other"] and g.p("_", 0.3):
            lst = next((x for x in g.lists if x["name"] == t[1]), None)
            if lst and not any(r.get("name") == "other" for r in lst["rows"]) and len(lst["rows"]) >= 2:
                lst["rows"].insert(g.integer(0, len(lst["rows"]) - 1), {"name": "other", "label": "My other"})
    case = {"form": form}
    if g.p("_", 0.2):
        case["no_headers"] = True   # the documented dict input may come without *_header keys: headers are the union of the row keys
        form.pop("ext_header", None)
    elif g.p("_", 0.15):
        # the workbook as a spreadsheet file with spacer columns and typed number cells: lists keep all their columns, in order
        form["carrier"] = {"fmt": g.pick(["xlsx", "xlsx", "xls", "csv"]), "seed": g.integer(0, 9999)}
    return case


def strategy(tier):
    return _cases()


def evaluate(case) -> Outcome:
    out = Outcome()
    form = case["form"]
    status, res = common.run_form(form, with_headers=not case.get("no_headers"))
    if status == "crash":
        out.label("outcome:crash:" + crash_sig(res))
        return out
    if status == "rejected":
        out.label("outcome:rejected:" + common.err_class(res))
        return out
    out.label("outcome:accepted")
    try:
        v = xform.XFormView(res.xform)
    except xform.IllFormed:
        out.label("unparseable (C01's business)")
        return out
    if v.primary is None or v.body is None:
        return out
    check(out, form, v, res)
    return out


def expected_lists(form, root, dlang):
    """list name -> list of expected item child lists [(tag, text|None)], after or_other additions"""
    other_lists = set()
    search_lists = set()
    for n in root.walk():
        if n.kind == "q" and n.src is not None and n.type:
            base, lst, other = tt.parse_type(n.type)
            if base in ("select_one", "select_multiple", "rank") and lst:
                if other:
                    other_lists.add(lst)
                if "search(" in (n.cells.get("appearance") or ""):
                    search_lists.add(lst)
    out = {}
    header = []
    for r in model.choices_rows(form):   # sheet order (lists may be interleaved): extra columns come out in header order
        for k in r:
            if k not in header:
                header.append(k)
    for lst in form.get("lists", []):
        rows = [dict(r) for r in lst["rows"]]
        if lst["name"] in other_lists and not any(r.get("name") == "other" for r in rows):
            _, mr = itext.list_model({"rows": rows}, dlang)
            if any(suff for _, _, _, suff in mr):
                langs_ = set()
                for lab, _, _, suff in mr:
                    if suff:
                        langs_ |= set(lab)
                rows.append({"name": "other", **{f"label::{l}": "Other" for l in sorted(langs_)}})
            else:
                rows.append({"name": "other", "label": "Other"})
        req, mr = itext.list_model({"rows": rows}, dlang)
        items = []
        for idx, (r, (lab, plain, media, suff)) in enumerate(zip(rows, mr)):
            kids = []
            if req:
                kids.append(("itextId", f"{lst['name']}-{idx}"))
            kids.append(("name", common.smart(r["name"])))
            if not req and plain is not None:
                kids.append(("label", plain))
            for col in header:
                if col in r and col.split("::")[0] not in NON_EXTRA:
                    kids.append((col, common.smart(r[col])))
            items.append(kids)
        out[lst["name"]] = items
    return out, search_lists


def check(out, form, v, res):
    dlang = expect.default_language(form)
    root = expect.build(form)
    names = expect.by_name(root)
    inst_live = v.live_instance()
    exp_lists, search_lists = expected_lists(form, root, dlang)
    sec_all = v.instances[1:]
    ids = [e.get("id") for e in sec_all]
    out.checked("C09.instance-ids-unique")
    if len(ids) != len(set(ids)):
        out.fail("C09.instance-ids-unique", "", f"instance ids {ids}")
    sec = {e.get("id"): e for e in sec_all}
    # expected external sources
    ext_expected = {}
    def want(iid, src, why):
        if iid in ext_expected and ext_expected[iid][0] != src:
            return
        ext_expected[iid] = (src, why)
    for n in root.walk():
        if n.kind == "root" or n.src is None and n.helper not in ("count", "instanceName"):
            continue
        c = n.cells
        if n.type in ("xml-external", "csv-external"):
            ext = n.type.split("-")[0]
            want(n.name, f"jr://{'file-csv' if ext == 'csv' else 'file'}/{n.name}.{ext}", n.type)
        if n.kind == "q" and n.type and n.src is not None:
            base, lst, other = tt.parse_type(n.type)
            if base in ("select_one_from_file", "select_multiple_from_file"):
                stem, ext = os.path.splitext(lst)
                want(stem, f"jr://{'file-csv' if ext == '.csv' else 'file'}/{lst}", "select-from-file")
        for col, val in c.items():
            # every cell kind in which references are substituted (logic, texts, messages, repeat_count, parameters, custom attributes)
            if isinstance(val, str) and "${last-saved#" in val and col not in ("type", "name"):
                if not expect.shadowed(c, col, dlang):
                    want("__last-saved", "jr://instance/last-saved", "last-saved")
            if col in ("relevant", "constraint", "calculation", "required", "readonly", "choice_filter", "default") and isinstance(val, str):
                for m in re.finditer(r"pulldata\s*\(\s*(['\"])(.*?)\1\s*,", val):
                    want(m.group(2), f"jr://file-csv/{m.group(2)}.csv", "pulldata")

    # choice labels and entity expressions are cells with references too
    for lst in form.get("lists", []):
        for r in lst["rows"]:
            for col, val in r.items():
                if col.split("::")[0] == "label" and isinstance(val, str) and "${last-saved#" in val and not expect.shadowed(r, col, dlang):
                    want("__last-saved", "jr://instance/last-saved", "last-saved")
    for r in form.get("entities") or []:
        if any(isinstance(val, str) and "${last-saved#" in val for val in r.values()):
            want("__last-saved", "jr://instance/last-saved", "last-saved")
        for col, val in r.items():
            if col in ("label", "entity_id", "create_if", "update_if") and isinstance(val, str):
                for m in re.finditer(r"pulldata\s*\(\s*(['\"])(.*?)\1\s*,", val):
                    want(m.group(2), f"jr://file-csv/{m.group(2)}.csv", "pulldata")
    out.checked("C09.external-instances")
    for iid, (src, why) in ext_expected.items():
        hits = [e for e in sec_all if e.get("id") == iid]
        if iid in exp_lists and iid not in search_lists:
            continue  # name clash between a choice list and an external source: documented special case
        if len(hits) != 1:
            out.fail("C09.external-instances", f"{why}:count", f"external source {iid} ({why}) declared {len(hits)} times")
        elif hits[0].get("src") != src:
            out.fail("C09.external-instances", f"{why}:src", f"instance {iid}: src {hits[0].get('src')!r}, expected {src!r}")
        elif len(xform.elems(hits[0])):
            out.fail("C09.external-instances", f"{why}:content", f"external instance {iid} has inline content")
    # secondary instances for lists
    out.checked("C09.lists")
    for name, items in exp_lists.items():
        if name in ext_expected:
            continue
        if name in search_lists:
            if name in sec:
                out.fail("C09.lists", "search-list-has-instance", f"list {name} is consumed by search() but has a secondary instance")
            continue
        el = sec.get(name)
        if el is None:
            out.fail("C09.lists", "missing", f"no secondary instance for list {name}")
            continue
        if el.get("src") is not None:
            out.fail("C09.lists", "has-src", f"list instance {name} has src")
            continue
        roots = xform.elems(el)
        act = []
        if len(roots) == 1 and xform.local(roots[0]) == "root":
            for it in xform.elems(roots[0]):
                act.append([(xform.local(k), k.text) for k in xform.elems(it)] if xform.local(it) == "item" else [("?" + xform.local(it), None)])
        exp = [[(t, x if x != "" else None) for t, x in kids] for kids in items]
        if act != exp:
            out.fail("C09.lists", _list_diff(exp, act), f"list {name}: expected items {exp}, got {act}")
    extra = [i for i in ids if i not in exp_lists and i not in ext_expected]
    if extra:
        out.fail("C09.lists", "unexpected-instance", f"unexpected instance ids {extra}")
    # selects
    controls = {}
    for el in v.body.iter():
        if isinstance(el.tag, str) and el.get("ref") and xform.local(el) in ("select", "select1", "rank", "input"):
            controls.setdefault(el.get("ref"), el)
    for n in root.walk():
        if n.kind != "q" or not n.type:
            continue
        base, lst, other = tt.parse_type(n.type)
        if base not in tt.SELECTS or lst is None or "${" in lst:
            continue
        ctrl = controls.get(n.path)
        if ctrl is None:
            continue
        c = n.cells
        prm = parse_params(expect.cell(c, "parameters"))
        filt = expect.cell(c, "choice_filter")
        ctx = xform.resolve(inst_live, n.path)
        ctx = ctx[0] if len(ctx) == 1 else None
        out.checked("C09.select")
        if base == "select_one_external":
            query = ctrl.get("query")
            want_base = f"instance('{lst}')/root/item"
            _check_nodeset(out, n, query, want_base, filt, None, names, inst_live, ctx, "external")
            continue
        if n.src is not None and "search(" in (c.get("appearance") or ""):
            items = [e for e in xform.elems(ctrl) if xform.local(e) == "item"]
            vals = [next((k.text for k in xform.elems(it) if xform.local(k) == "value"), None) for it in items]
            expv = [dict(k).get("name") for k in exp_lists.get(lst, [])]
            if vals != expv:
                out.fail("C09.select", "search-items", f"{n.path}: inline item values {vals}, expected {expv}")
            if any(xform.local(e) == "itemset" for e in xform.elems(ctrl)):
                out.fail("C09.select", "search-has-itemset", f"{n.path}: search() select has an itemset")
            # each inline item carries its label: the choice's text, or a reference to its itext entry
            for it, kids in zip(items, exp_lists.get(lst, [])):
                kd = dict(kids)
                lab = next((k for k in xform.elems(it) if xform.local(k) == "label"), None)
                if "itextId" in kd:
                    if lab is None or not (lab.get("ref") or "").startswith("jr:itext("):
                        out.fail("C09.select", "search-item-label-ref", f"{n.path}: item {kd.get('name')} has no itext label reference")
                elif "label" in kd and "${" not in kd["label"] and "instance(" not in kd["label"]:
                    got = "".join(lab.itertext()) if lab is not None else None
                    if got != kd["label"]:
                        out.fail("C09.select", "search-item-label", f"{n.path}: item {kd.get('name')} label {got!r}, expected {kd['label']!r}")
            continue
        its = [e for e in xform.elems(ctrl) if xform.local(e) == "itemset"]
        if len(its) != 1:
            out.fail("C09.select", "itemset-count", f"{n.path}: {len(its)} itemsets")
            continue
        it = its[0]
        stem, ext = os.path.splitext(lst)
        from_file = base.endswith("_from_file")
        iid = stem if from_file else lst
        vref = "name"
        lref = "label"
        if from_file and ext == ".geojson":
            vref, lref = "id", "title"
        if from_file:
            vref = prm.get("value", vref)
            lref = prm.get("label", lref)
        elif exp_lists.get(lst) and any(t == "itextId" for t, _ in exp_lists[lst][0]):
            lref = "jr:itext(itextId)"
        got_v = next((e.get("ref") for e in xform.elems(it) if xform.local(e) == "value"), None)
        got_l = next((e.get("ref") for e in xform.elems(it) if xform.local(e) == "label"), None)
        if got_v != vref or got_l != lref:
            out.fail("C09.select", "value-label-ref", f"{n.path}: itemset value/label refs {got_v!r}/{got_l!r}, expected {vref!r}/{lref!r}")
        rnd = prm.get("randomize") == "true"
        seed = prm.get("seed") if rnd else None
        _check_nodeset(out, n, it.get("nodeset"), f"instance('{iid}')/root/item", filt, (rnd, seed), names, inst_live, ctx, "select")
    # itemsets.csv
    if form.get("ext") and any(n.type and n.type.startswith("select_one_external") for n in root.walk() if n.kind == "q"):
        out.checked("C09.itemsets-csv")
        if res.itemsets is None:
            out.fail("C09.itemsets-csv", "missing", "select_one_external used but ConvertResult.itemsets is None")
        else:
            rows = list(csv.reader(io.StringIO(res.itemsets, newline="")))
            header = form.get("ext_header") or model.header_of(form["ext"])
            if not rows or rows[0] != header:
                out.fail("C09.itemsets-csv", "header", f"header {rows[0] if rows else None}, expected {header}")
            elif len(rows) - 1 != len(form["ext"]):
                out.fail("C09.itemsets-csv", "row-count", f"{len(rows) - 1} data rows, expected {len(form['ext'])}")
            else:
                for i, (got, src) in enumerate(zip(rows[1:], form["ext"])):
                    wantrow = [common.smart(src.get(h, "")) for h in header]
                    if got != wantrow:
                        sparse = any(h not in src for h in header)
                        out.fail("C09.itemsets-csv", "cells-shifted" if sparse and len(got) < len(wantrow) else "cells", f"row {i + 2}: {got}, expected {wantrow}")
                        break
    n_lists = len(form.get("lists", []))
    sparse_extra = any(col.split("::")[0] not in NON_EXTRA and any(col not in r2 for r2 in lst["rows"]) for lst in form.get("lists", []) for r in lst["rows"] for col in r)
    out.nontrivial = (n_lists >= 2 or bool(ext_expected)) and sparse_extra
    for iid, (src, why) in ext_expected.items():
        out.label("ext:" + why)
    if search_lists:
        out.label("search()")
    if form.get("ext"):
        out.label("external_choices")


def _check_nodeset(out, n, nodeset, want_base, filt, rnd, names, inst, ctx, tag):
    if nodeset is None:
        out.fail("C09.select", f"{tag}:no-nodeset", f"{n.path}: no nodeset/query")
        return
    s = nodeset
    if rnd and rnd[0]:
        m = re.fullmatch(r"randomize\((.*?)(?:, (\S+))?\)", s, re.S)
        if not m:
            out.fail("C09.select", f"{tag}:randomize", f"{n.path}: nodeset {s!r} is not randomize(...)")
            return
        s = m.group(1)
        seed_src = rnd[1]
        got_seed = m.group(2)
        if seed_src is None and got_seed is not None:
            # the lazy group may have swallowed a comma inside the predicate: retry greedy without seed
            s = re.fullmatch(r"randomize\((.*)\)", nodeset, re.S).group(1)
        elif seed_src is not None:
            if got_seed is None:
                out.fail("C09.select", f"{tag}:seed-missing", f"{n.path}: nodeset {nodeset!r} lacks seed {seed_src!r}")
                return
            if "${" not in seed_src and got_seed != seed_src:
                out.fail("C09.select", f"{tag}:seed", f"{n.path}: seed {got_seed!r}, expected {seed_src!r}")
            if "${" in seed_src:
                # "its own seed": the reference is read from this select (the same answer in the same repeat instance)
                mm = re.search(r"seed\s*=\s*\$\{([^}]+)\}", expect.cell(n.cells, "parameters") or "")
                tgt = names.get(mm.group(1)) if mm else None
                if tgt and len(tgt) == 1:
                    bad = refs.check_token(got_seed, inst, ctx, tgt[0].path, must_relative=refs.must_be_relative(n, tgt[0]) or None)
                    if bad:
                        out.fail("C09.select", f"{tag}:seed-ref:{bad[0]}", f"{n.path}: seed {seed_src!r}: {bad[1]}")
    elif s.startswith("randomize("):
        out.fail("C09.select", f"{tag}:randomize-unexpected", f"{n.path}: nodeset {s!r} randomized without randomize=true")
        return
    if not s.startswith(want_base):
        out.fail("C09.select", f"{tag}:wrong-instance", f"{n.path}: nodeset {s!r} does not read {want_base}")
        return
    rest = s[len(want_base):]
    if not filt:
        if rest != "":
            out.fail("C09.select", f"{tag}:unexpected-filter", f"{n.path}: nodeset {s!r} has a predicate but the row has no choice_filter")
        return
    if not (rest.startswith("[") and rest.endswith("]")):
        out.fail("C09.select", f"{tag}:filter-missing", f"{n.path}: nodeset {s!r} lacks the predicate for choice_filter {filt!r}")
        return
    toks = refs.match_substituted(filt, rest[1:-1])
    if toks is None:
        out.fail("C09.select", f"{tag}:filter-differs", f"{n.path}: predicate {rest[1:-1]!r} is not choice_filter {filt!r}")
        return
    # "its own choice filter": inside the item[...] predicate a relative path is read against the list item unless it is anchored
    # with current(), so every substituted reference must reach its question from *this* select
    _, rr = refs.split_source(filt)
    for tok, (ls, name) in zip(toks, rr):
        tgt = names.get(name)
        if not tgt or len(tgt) != 1:
            continue
        bad = refs.check_token(tok, inst, ctx, tgt[0].path, last_saved=ls, must_relative=refs.must_be_relative(n, tgt[0]) or None, need_current=True)
        if bad:
            out.fail("C09.select", f"{tag}:filter-ref:{bad[0]}", f"{n.path}: choice_filter {filt!r}: {bad[1]}")


def _list_diff(exp, act):
    if len(exp) != len(act):
        return "item-count"
    for e, a in zip(exp, act):
        if e != a:
            if [t for t, _ in e] != [t for t, _ in a]:
                et, at = [t for t, _ in e], [t for t, _ in a]
                if sorted(et) == sorted(at):
                    return "child-order"
                return "children"
            return "text"
    if sorted(map(str, exp)) == sorted(map(str, act)):
        return "item-order"
    return "other"
