"""Per-property manifest text. Keep in step with DESIGN.md section 4."""

NOT_APPLICABLE = {}

CHECKS = {
    "C01": dict(
        technique="property-based testing (Hypothesis generators over abstract forms) with a validity-predicate oracle (libxml2 namespace-aware parse + skeleton check)",
        text="Generated-input search: thousands of random forms per run (all question types, nesting, languages, settings, adversarial text) are converted in both pretty_print modes and every output is parsed by libxml2 in namespace mode and checked against the ODK skeleton. Exploration is the honest level: the input space is unbounded and the oracle needs no model of pyxform.",
        design_ref="DESIGN.md §4 C01",
        note="Trusts lxml/libxml2 as XML arbiter and the abstract-form generator's coverage (label histogram in evidence). Containers other than dict are covered by C12.",
    ),
    "C02": dict(
        technique="property-based testing with a validity-predicate oracle over the parsed output (static path resolution of every nodeset/ref against the primary instance) plus name-collision mutations",
        text="Generated-input search over random forms with many generated helper nodes and a 25% share of deliberately colliding names; every bind/control/repeat/action path must resolve to exactly one instance node, siblings unique, no node bound twice, no two controls per ref, template copies shaped like live copies; colliding forms must be rejected or still unambiguous.",
        design_ref="DESIGN.md §4 C02",
        note="Static resolution of the path shapes pyxform emits (/a/b, /a/b/@x); templates removed before resolving.",
    ),
    "C15": dict(
        technique="property-based differential testing: pretty_print=True vs False outputs compared as canonical trees (character-exact text in any element with non-blank text)",
        text="Generated-input search; each form is converted in both modes and the two documents must be the same tree with identical attributes, namespaces and text (whitespace-only text ignored only between elements).",
        design_ref="DESIGN.md §4 C15",
        note="Both outputs parsed by libxml2; generator weighted to mixed text/output content and significant spaces.",
    ),
    "C16": dict(
        technique="property-based round-trip testing (workbook JSON and survey.to_json_dict dumps through json.dumps/loads and the builder) with XForm equality and dump-stability oracles",
        text="Generated-input search; four round-trip clauses per accepted form. Differences are classified by what differs (attribute, element, text) so each root cause is its own bucket.",
        design_ref="DESIGN.md §4 C16",
        note="Uses pyxform's public builder/to_json_dict/workbook_to_json entry points; two genuine defects found here were fixed in /repo (see known_findings.json).",
    ),
}
