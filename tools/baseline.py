#!/venv/bin/python
"""Run the pinned baseline suite of /repo (or $1) and compare with BASELINE.json stable_pass.
exit 0 iff every stable_pass test passes."""
import json, subprocess, sys, tempfile, os
import xml.etree.ElementTree as ET
repo = sys.argv[1] if len(sys.argv) > 1 else "/repo"
base = json.load(open("/root/.vp/BASELINE.json"))
with tempfile.TemporaryDirectory() as d:
    out = os.path.join(d, "j.xml")
    env = dict(os.environ); env.pop("PYXFORM_VERIF", None)
    subprocess.run(["/venv/bin/python", "-m", "pytest", "-q", "-p", "no:cacheprovider", "--timeout=900",
                    "--continue-on-collection-errors", f"--junitxml={out}"], cwd=repo, env=env,
                   stdout=subprocess.DEVNULL, stderr=subprocess.DEVNULL)
    passed = set()
    for tc in ET.parse(out).getroot().iter("testcase"):
        if not any(ch.tag in ("failure", "error", "skipped") for ch in tc):
            passed.add(f"{tc.get('classname')}::{tc.get('name')}")
missing = [t for t in base["stable_pass"] if t not in passed]
print(f"baseline: {len(base['stable_pass']) - len(missing)}/{len(base['stable_pass'])} stable tests pass")
for t in missing[:20]:
    print("  NOT PASSING:", t)
sys.exit(1 if missing else 0)
