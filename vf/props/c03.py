"""C03 -- ${name} references become XPaths that reach the named question's node."""

from __future__ import annotations

import itertools
import re

from hypothesis import strategies as st

from vf import common, gen, model, xform
from vf.ref import expect, refs
from vf.ref import typetable as tt
from vf.runner import Outcome, crash_sig
from vf.xform import JR, NS, ODK, XF, q

ID = "C03"
LEVEL = "exploration"
RULE = ("(i) bounded-exhaustive layouts: every (shared prefix, referrer chain, target chain) of group/repeat containers up to "
        "total depth 3 (quick) / 4 (thorough), both sheet orders, x cell kinds {relevant, constraint, calculation, required, "
        "readonly, default, choice_filter, external-select choice_filter, repeat_count, trigger, seed, label, hint, guidance_hint, "
        "constraint_message, required_message, bind::custom, appearance of question/group/repeat rows}; (ii) Hypothesis 'refs' profile forms with several references per expression, "
        "indexed-repeat/instance()/pulldata/last-saved, plus missing-name and ambiguous-name mutations; non-trivial = referrer "
        "or target inside >=1 repeat; distinct by SHA-1 of the case JSON")
ASSUMPTIONS = ["'reaches' is decided by static resolution of the emitted path over the parsed instance (exact for /a/b, ../x, current()/../x)",
               "the context node of a cell is the instance node of the row the cell belongs to"]
BUDGET = {"quick": 8000, "thorough": 300000}
EXHAUSTIVE = {"quick": True, "thorough": True}
EXHAUSTIVE_NOTE = "exhaustive over container layouts to the stated depth x the listed cell kinds only; all other dimensions are sampled"

BIND_EXPR = {"relevant": "relevant", "constraint": "constraint", "calculation": "calculate", "required": "required", "readonly": "readonly"}
TEXT_KINDS = {"label": "label", "hint": "hint", "guidance_hint": "hint", "constraint_message": "jr:constraintMsg", "required_message": "jr:requiredMsg"}
LAYOUT_KINDS = ["relevant", "constraint", "calculation", "required", "readonly", "default", "choice_filter", "repeat_count",
                "trigger", "seed", "label", "hint", "guidance_hint", "constraint_message", "required_message", "bind::custom",
                "ext_choice_filter", "appearance", "group_appearance", "repeat_appearance"]


# ------------------------------------------------------------------ layouts


def _chains(maxlen):
    for n in range(maxlen + 1):
        yield from itertools.product("gr", repeat=n)


def layouts(depth):
    for pre in _chains(depth):
        for a in _chains(depth - len(pre)):
            for b in _chains(depth - len(pre)):
                if len(pre) + max(len(a), len(b)) <= depth:
                    yield pre, a, b


def make_layout_form(pre, a, b, kind, target_first):
    """prefix containers, then two branches: referrer chain `a` holding R, target chain `b` holding T"""
    cnt = [0]

    def wrap(chain, leaf, tag):
        node = leaf
        for k in reversed(chain):
            cnt[0] += 1
            node = {"k": k, "c": {"name": f"{tag}{k}{cnt[0]}", "label": "C"}, "ch": [node]}
        return node

    T = {"k": "q", "c": {"type": "text", "name": "T", "label": "target"}}
    ref = "${T}"
    extra = []
    lists = None
    if kind in BIND_EXPR:
        rc = {"type": "text", "name": "R", "label": "referrer", kind: f"{ref} = 'x'"}
        if kind == "calculation":
            rc = {"type": "calculate", "name": "R", "calculation": f"concat({ref}, 'x')"}
    elif kind == "default":
        rc = {"type": "text", "name": "R", "label": "referrer", "default": ref}
    elif kind == "choice_filter":
        rc = {"type": "select_one l", "name": "R", "label": "referrer", "choice_filter": f"name = {ref}"}
        lists = [{"name": "l", "rows": [{"name": "a", "label": "A"}]}]
    elif kind == "ext_choice_filter":
        rc = {"type": "select_one_external ecl", "name": "R", "label": "referrer", "choice_filter": f"state = {ref}"}
    elif kind == "seed":
        rc = {"type": "select_one l", "name": "R", "label": "referrer", "parameters": f"randomize=true seed={ref}"}
        lists = [{"name": "l", "rows": [{"name": "a", "label": "A"}]}]
    elif kind == "trigger":
        rc = {"type": "text", "name": "R", "label": "referrer", "trigger": ref, "calculation": f"concat({ref}, 'v')"}
    elif kind in TEXT_KINDS:
        rc = {"type": "text", "name": "R", "label": "referrer"}
        if kind in ("constraint_message", "required_message"):
            rc["constraint" if kind == "constraint_message" else "required"] = ". != 'z'" if kind == "constraint_message" else "yes"
        if kind == "guidance_hint":
            rc["hint"] = "h"
        rc[kind] = f"see {ref} now"
    elif kind == "bind::custom":
        rc = {"type": "text", "name": "R", "label": "referrer", "bind::custom": f"{ref} + 1"}
    elif kind == "appearance":
        rc = {"type": "text", "name": "R", "label": "referrer", "appearance": f"custom({ref})"}
    elif kind in ("repeat_count", "group_appearance", "repeat_appearance"):
        rc = None
    inner = [{"k": "q", "c": {"type": "text", "name": "inner", "label": "i"}}]
    if rc is not None:
        R = {"k": "q", "c": rc}
    elif kind == "repeat_count":
        R = {"k": "r", "c": {"name": "R", "label": "referrer", "repeat_count": ref}, "ch": inner}
    else:
        R = {"k": kind[0], "c": {"name": "R", "label": "referrer", "appearance": f"custom({ref})"}, "ch": inner}
    ra, tb = wrap(a, R, "a"), wrap(b, T, "b")
    body = [tb, ra] if target_first else [ra, tb]
    nodes = body
    for k in reversed(pre):
        cnt[0] += 1
        nodes = [{"k": k, "c": {"name": f"p{k}{cnt[0]}", "label": "P"}, "ch": nodes}]
    form = {"nodes": nodes, "args": {}}
    if lists:
        form["lists"] = lists
    if kind == "ext_choice_filter":
        form["ext"] = [{"list_name": "ecl", "name": "a", "label": "A", "state": "x"}]
    return form


def enumerate_cases(tier):
    depth = 3 if tier == "quick" else 4
    for pre, a, b in layouts(depth):
        for kind in LAYOUT_KINDS:
            for tf in (True, False):
                yield {"form": make_layout_form(pre, a, b, kind, tf), "layout": ["".join(pre), "".join(a), "".join(b), kind, tf]}


# ------------------------------------------------------------------ random engine


def break_ref(g, form):
    """negative half: make one reference dangling or ambiguous"""
    cells = [(n, k) for n, _ in model.walk(form["nodes"]) for k, v in n["c"].items() if k not in ("type", "name") and "${" in v
             and ("::" in k or not any(o.startswith(k + "::") for o in n["c"]))]  # unsuffixed cells may be shadowed by design
    named = model.find_named(form)
    if not cells:
        return None
    n, k = g.pick(cells)
    refs_ = model.refs_in(n["c"][k])
    ls, name = g.pick(refs_)
    mode = g.pick(["missing", "ambiguous"])
    if mode == "missing":
        new = "nope" + str(g.integer(100, 999))
        n["c"][k] = n["c"][k].replace("${%s}" % name, "${%s}" % new).replace("${last-saved#%s}" % name, "${last-saved#%s}" % new)
        return {"mode": "missing", "name": new}
    tgt = named.get(name)
    if not tgt or tgt[0][0]["k"] != "q":
        return None
    # add a second question with the same name in another (new) group
    # 1..4 more elements carry the name, each in a section of its own
    for i in range(g.pick([1, 1, 2, 2, 3, 4])):
        form["nodes"].append({"k": "g", "c": {"name": f"dupgrp{i}_" + str(g.integer(100, 999)), "label": "D"},
                              "ch": [{"k": "q", "c": {"type": "text", "name": name, "label": "dup"}}]})
    return {"mode": "ambiguous", "name": name}


def plant_select_from_repeat(g, form):
    """choices taken from the answers of a repeat (select_one ${question in a repeat}) with a choice filter that mentions questions of
    that repeat, questions outside it and siblings of the select.  Names are chosen so that one path is a textual prefix of another."""
    u = str(g.integer(10, 99))
    rep, nm, age, w = "kid" + u, "kid" + u + "_name", "kid" + u + "_age", "kid" + u + "_w"
    q = lambda **c: {"k": "q", "c": c}  # noqa: E731
    inner = [q(type="text", name=nm, label="N"), q(type="integer", name=age, label="A")]
    in_group = g.p("_", 0.4)
    if in_group:
        inner.append({"k": "g", "c": {"name": "kg" + u, "label": "G"}, "ch": [q(type="integer", name=w, label="W")]})
    items = {"k": "r", "c": {"name": rep, "label": "R"}, "ch": inner}
    variant = g.pick(["top", "top", "sibling-repeat", "same-repeat"])
    limit = rep + g.pick(["_limit", "-limit", ".max", "2"])          # /root/kid12_limit starts with the text of /root/kid12
    flt = "${%s} < ${%s}" % (age, limit) if g.p("_", 0.7) else "${%s} < 99" % age
    if in_group and g.p("_", 0.6):
        flt += " and ${%s} > 1" % w
    sel = q(type="select_one ${%s}" % nm, name="pick" + u, label="P", choice_filter=flt)
    top = [q(type="integer", name=limit, label="L")]
    if variant == "top":
        form["nodes"] += [items] + top + [sel]
    elif variant == "sibling-repeat":
        vmin = "vmin" + u
        sel["c"]["choice_filter"] = flt + " and ${%s} > ${%s}" % (age, vmin)
        vname = g.pick(["visit" + u, rep + "_visit", rep + "_v"])     # a sibling whose path starts with the text of the choices repeat's path
        form["nodes"] += [items] + top + [{"k": "r", "c": {"name": vname, "label": "V"}, "ch": [q(type="integer", name=vmin, label="M"), sel]}]
    else:
        items["ch"].append(sel)
        form["nodes"] += top + [items]
    form["sfr"] = variant


@st.composite
def _cases(draw):
    prof = dict(gen.PROFILES["refs"], p_messages=0.6, p_hint=0.4, p_guidance=0.2, p_custom_bind=0.2, p_randomize=0.3,
                p_repeat_count=0.5, p_multilang=0.3, p_choice_label_ref=0.2, p_entities=0.0, settings="some", p_reuse_names=0.3)
    g = gen.G(draw, prof)
    form = gen.build_form(draw, prof, g=g)
    if g.p("_", 0.25):
        # the same text (with its references) on two rows at different places: every copy needs its own paths
        donors = [n for n, _ in model.walk(form["nodes"]) if n["k"] != "x" and any("${" in v for k, v in n["c"].items() if k.split("::")[0] in ("label", "hint"))]
        takers = [n for n, _ in model.walk(form["nodes"]) if n["k"] == "q" and any(k.split("::")[0] == "label" for k in n["c"])
                  and n["c"].get("type", "").split(" ")[0] not in ("calculate", "hidden") and "calculation" not in n["c"] and "trigger" not in n["c"]]
        if donors and takers:
            a, b = g.pick(donors), g.pick(takers)
            if a is not b:
                for k in [k for k in b["c"] if k.split("::")[0] in ("label", "hint")]:
                    del b["c"][k]
                for k, v in a["c"].items():
                    if k.split("::")[0] in ("label", "hint"):
                        b["c"][k] = v
    if g.p("_", 0.2):
        plant_select_from_repeat(g, form)
    if g.p("_", 0.2):
        # a reference inside an appearance cell (search()/custom appearances take them) of a question, group or repeat row
        named = [nm for nm, hits in model.find_named(form).items() if len(hits) == 1 and hits[0][0]["k"] == "q"
                 and hits[0][0]["c"].get("type", "").split(" ")[0] not in ("xml-external", "csv-external")]
        hosts = [n for n, _ in model.walk(form["nodes"]) if n["k"] in ("q", "g", "r") and "appearance" not in n["c"] and "label" in n["c"]
                 and n["c"].get("type", "text").split(" ")[0] in ("text", "integer", "decimal")]
        if named and hosts:
            h = g.pick(hosts)
            h["c"]["appearance"] = g.pick(["custom(${%s})", "w1 ${%s}", "${%s}"]) % g.pick(named)
    if g.p("_", 0.12):
        # a reference into the last saved record inside a text, written between quotation marks or apostrophes (text is not XPath:
        # quotes in it quote nothing) -- possibly the only last-saved reference of the form
        named = [nm for nm, hits in model.find_named(form).items() if len(hits) == 1 and hits[0][0]["k"] == "q"
                 and hits[0][0]["c"].get("type", "").split(" ")[0] in ("text", "integer", "decimal", "date")]
        hosts = [n for n, _ in model.walk(form["nodes"]) if n["k"] == "q" and "label" in n["c"] and "${" not in n["c"]["label"]
                 and n["c"].get("type", "").split(" ")[0] in ("text", "integer", "note") and "calculation" not in n["c"] and "trigger" not in n["c"]]
        if named and hosts:
            h = g.pick(hosts)
            col = g.pick(["label", "hint"])
            if not any(k.startswith(col + "::") for k in h["c"]) and not (col == "hint" and "hint" in h["c"] and "${" in h["c"]["hint"]):
                h["c"][col] = g.pick(["Last time you entered '${last-saved#%s}' here", "It's ${last-saved#%s}, isn't it?", 'Was "${last-saved#%s}" right?']) % g.pick(named)
    c = {"form": form}
    if g.p("_", 0.12):
        br = break_ref(g, form)
        if br:
            c["broken"] = br
    return c


def strategy(tier):
    return _cases()


# ------------------------------------------------------------------ oracle


def inline_text(el):
    """text content with each <output value=X/> replaced by X"""
    s = el.text or ""
    for c in xform.elems(el):
        if xform.local(c) == "output":
            s += c.get("value") or ""
        s += c.tail or ""
    return s


def _broken_precondition(form, broken):
    name = broken["name"]
    dlang = expect.default_language(form)
    referred = any(("${%s}" % name) in v or ("${last-saved#%s}" % name) in v
                   for n, _ in model.walk(form["nodes"]) if n["k"] != "x" for k, v in n["c"].items()
                   if k not in ("type", "name") and not expect.shadowed(n["c"], k, dlang))
    count = len(model.find_named(form).get(name, []))
    return referred and (count == 0 if broken["mode"] == "missing" else count >= 2)


def evaluate(case) -> Outcome:
    out = Outcome()
    form = case["form"]
    status, res = common.run_form(form)
    broken = case.get("broken")
    if case.get("layout"):
        out.label("layout-kind:" + case["layout"][3])
    if broken and not _broken_precondition(form, broken):
        broken = None  # (a shrunk case that lost the planted reference)
    if broken:
        out.checked("C03.negative")
        out.label("broken:" + broken["mode"])
        if status == "ok":
            out.fail("C03.negative", broken["mode"] + "-accepted", f"reference to {broken['mode']} name {broken['name']} was accepted")
        elif status == "rejected" and broken["name"] not in str(res):
            out.fail("C03.negative", broken["mode"] + "-unnamed:" + common.err_class(res)[:40], f"error does not name {broken['name']}: {res}")
        out.nontrivial = True
        return out
    if status == "crash":
        out.label("outcome:crash:" + crash_sig(res))
        return out
    if status == "rejected":
        out.label("outcome:rejected:" + common.err_class(res))
        # the other direction of "refused when nothing carries the name": the refusal must be about a name the workbook really lacks,
        # spelled as the author spelled it (names are case-sensitive)
        m = re.search(r"replace (\$\{[^}]*\}) with the XPath to the survey element named '([^']*)'\. There is no survey element", str(res))
        if m:
            out.checked("C03.refusal-names-a-missing-name")
            written = {nm for n, _ in model.walk(form["nodes"]) if n["k"] != "x" for k, v in n["c"].items() if k not in ("type", "name")
                       for _, nm in model.refs_in(v)}
            written |= {nm for n, _ in model.walk(form["nodes"]) if n["k"] != "x" for _, nm in model.refs_in(n["c"].get("type", ""))}
            named = model.find_named(form)
            if m.group(2) in named and m.group(2) != expect.build(form).name:
                out.fail("C03.refusal-names-a-missing-name", "name-exists", f"refused: {res}; but a row is named {m.group(2)!r}")
            elif m.group(2) not in written and m.group(2).lower() in {w.lower() for w in written}:
                out.fail("C03.refusal-names-a-missing-name", "not-as-written", f"refused: {res}; the workbook never writes ${{{m.group(2)}}}")
        if case.get("layout"):
            out.fail("C03.layout-rejected", case["layout"][3], f"{case['layout']}: {res}")
        return out
    out.label("outcome:accepted")
    try:
        v = xform.XFormView(res.xform)
    except xform.IllFormed:
        out.label("unparseable (C01's business)")
        return out
    if v.primary is None:
        return out
    out.checked("C03.no-dollar-brace")
    if "${" in res.xform:
        i = res.xform.index("${")
        out.fail("C03.no-dollar-brace", "", f"'${{' survives in output: ...{res.xform[max(0, i - 60):i + 40]}...")
    # a path into the last-saved instance needs that instance to be declared, whatever cell kind the reference came from
    out.checked("C03.last-saved-declared")
    uses = "instance('__last-saved')" in res.xform
    declared = [e for e in v.model.iter(q(XF, "instance")) if e.get("id") == "__last-saved"]
    if uses:
        out.label("uses-last-saved")
    if uses and (len(declared) != 1 or declared[0].get("src") != "jr://instance/last-saved"):
        out.fail("C03.last-saved-declared", "undeclared" if not declared else "wrong-declaration",
                 f"the output refers to instance('__last-saved') but the model declares {[xform.attrs(e) for e in declared]}")
    root = expect.build(form)
    audit(out, form, v, root)
    return out


def audit(out, form, v, root):
    inst = v.live_instance()
    names = expect.by_name(root)
    bm = v.bind_map()
    trans, _ = v.translations()
    body = v.body
    controls = {}
    for el in body.iter():
        if isinstance(el.tag, str) and (el.get("ref") or el.get("nodeset")) and xform.local(el) not in ("setvalue", "setgeopoint", "label", "hint", "itemset", "value"):
            controls.setdefault(el.get("ref") or el.get("nodeset"), []).append(el)
    any_repeat = False
    dlang = expect.default_language(form)

    def ctx_of(n):
        h = xform.resolve(inst, n.path)
        return h[0] if len(h) == 1 else None

    def check(n, kind, source, actual_candidates, *, strip=False, force_abs=False, predicate=False, no_rel_rule=False, text=False):
        """find a candidate that is `source` with refs substituted, then check every token"""
        nonlocal any_repeat
        out.checked("C03.cell")
        out.label("kind:" + kind)
        _, rr = refs.split_source(source)
        toks = None
        for a in actual_candidates:
            if a is None:
                continue
            toks = refs.match_substituted(source, a, strip=strip)
            if toks is None and text:
                # mixed text+output content may gain one boundary space at either end (documented writer behaviour)
                for cand in (a[1:-1] if a[:1] == " " and a[-1:] == " " else None, a[1:] if a[:1] == " " else None, a[:-1] if a[-1:] == " " else None):
                    if cand is not None:
                        toks = refs.match_substituted(source, cand, strip=False)
                        if toks is not None:
                            break
            if toks is not None:
                break
        if toks is None:
            out.fail("C03.cell-not-found", kind, f"{n.path} [{kind}] source {source!r} not found substituted; candidates {[a for a in actual_candidates if a][:3]}")
            return
        ctx = ctx_of(n)
        for i, (tok, (ls, name)) in enumerate(zip(toks, rr)):
            tgt = names.get(name)
            if not tgt or len(tgt) != 1:
                continue
            t = tgt[0]
            in_ir = refs.in_indexed_repeat(source, i)
            must_rel = None if (no_rel_rule or in_ir or ls or force_abs) else (refs.must_be_relative(n, t) or None)
            need_cur = (predicate or refs.in_instance_predicate(source, i)) and not in_ir
            if n.innermost_repeat() is not None or t.innermost_repeat() is not None:
                any_repeat = True
            bad = refs.check_token(tok, inst, ctx, t.path, last_saved=ls, must_relative=must_rel, need_current=need_cur,
                                   stay_within=refs.levels_to_shared_repeat(n, t))
            out.checked("C03.token")
            if bad:
                feat = ""
                if any(a is t for a in n.ancestors()):
                    feat = ":target-is-ancestor"
                elif in_ir:
                    feat = ":indexed-repeat"
                out.fail("C03.ref", f"{bad[0]}{feat}|{kind if kind in ('choice_filter', 'trigger-value', 'seed', 'repeat_count') else 'cell'}",
                         f"{n.path} [{kind}] {source!r}: {bad[1]}")
            ir_arg = refs.indexed_repeat_arg(source, i) if in_ir else None
            if ir_arg in (0, 1, 3, 5) and not ls and not tok.startswith("/"):
                # the field and the repeat-group arguments of indexed-repeat() are absolute by design
                out.fail("C03.ref", f"not-absolute:indexed-repeat-arg{ir_arg}|cell", f"{n.path} [{kind}] {source!r}: argument {ir_arg + 1} is {tok!r}, must be the absolute path {t.path}")
            if force_abs and not tok.startswith("/"):
                out.fail("C03.ref", f"not-absolute|{kind}", f"{n.path} [{kind}] token {tok!r} must be absolute")

    def check_repeat_itemset(n, source, ctrl_el):
        """select_one ${x}: the items are the instances of the repeat (or group in it) that holds x; inside the predicate '.' is an item"""
        nonlocal any_repeat
        any_repeat = True
        out.checked("C03.repeat-itemset")
        out.label("kind:repeat-itemset:" + str(form.get("sfr")))
        m = model.REF_RE.search(c_type := n.cells["type"])
        x = names.get(m.group(2)) if m else None
        its = list(ctrl_el.iter(q(XF, "itemset"))) if ctrl_el is not None else []
        if not x or len(x) != 1 or len(its) != 1:
            out.fail("C03.repeat-itemset", "no-itemset", f"{n.path}: {c_type!r} has {len(its)} itemsets")
            return
        x = x[0]
        container = x.parent
        ns = its[0].get("nodeset") or ""
        base_path, _, pred = ns.partition("[")
        pred = pred[:-1] if pred.endswith("]") else pred
        ctx = ctx_of(n)
        cont_el = ctx_of(container)
        if base_path.startswith("/"):
            ok = base_path == container.path
        else:
            hits = sorted({xform.node_path(h) for h in xform.resolve(inst, base_path, ctx)}) if ctx is not None else []
            ok = hits == [container.path]
        if not ok:
            out.fail("C03.repeat-itemset", "nodeset", f"{n.path}: itemset nodeset {base_path!r} is not the repeat {container.path}")
        vals = [e.get("ref") for it in its for e in xform.elems(it) if xform.local(e) in ("value", "label")]
        if vals != [x.name, x.name] and sorted(vals) != [x.name, x.name]:
            out.fail("C03.repeat-itemset", "value-label", f"{n.path}: value/label refs {vals}, expected {x.name}")
        toks = refs.match_substituted(source, pred)
        if toks is None:
            out.fail("C03.cell-not-found", "repeat-itemset", f"{n.path}: filter {source!r} not found substituted in {pred!r}")
            return
        _, rr = refs.split_source(source)
        for tok, (ls, name) in zip(toks, rr):
            tgt = names.get(name)
            if not tgt or len(tgt) != 1 or ls:
                continue
            t = tgt[0]
            out.checked("C03.token")
            if t.path.startswith(container.path + "/"):
                # a question of the items' repeat: relative to the item, or absolute
                if tok.startswith("/"):
                    bad = None if tok == t.path else ("wrong-absolute", f"{tok!r} != {t.path}")
                elif tok.startswith("./") and cont_el is not None:
                    hits = sorted({xform.node_path(h) for h in xform.resolve(inst, tok, cont_el)})
                    bad = None if hits == [t.path] else ("wrong-item-relative", f"{tok!r} from the item {container.path} reaches {hits}, expected {t.path}")
                else:
                    bad = ("not-item-relative", f"{tok!r}: a question of the repeat that supplies the choices is addressed from the item ('./...')")
            else:
                bad = refs.check_token(tok, inst, ctx, t.path, must_relative=refs.must_be_relative(n, t) or None, need_current=not tok.startswith("/"),
                                       stay_within=refs.levels_to_shared_repeat(n, t))
            if bad:
                out.fail("C03.ref", f"{bad[0]}|repeat-itemset", f"{n.path} [select from {container.path}] {source!r}: {bad[1]}")

    def itext_values(text_id, form_attr):
        vals = []
        for lang, d in trans.items():
            for t in d.get(text_id, []):
                for val in xform.elems(t):
                    if val.get("form") == form_attr:
                        vals.append(inline_text(val))
        return vals

    for n in root.walk():
        if n.kind == "root" or n.helper in ("meta", "entity", "entity-label"):
            continue
        c = n.cells
        binds = bm.get(n.path, [])
        b = binds[0] if binds else None
        ctrl = (controls.get(n.path) or [None])
        ctrl_el = ctrl[-1] if n.kind == "r" else ctrl[0]
        for col, raw in c.items():
            if not isinstance(raw, str) or "${" not in raw:
                continue
            if expect.shadowed(c, col, dlang):
                continue  # documented: the cell suffixed with the default language overwrites the unsuffixed one
            source = common.survey_clean(raw)
            base = col.split("::")[0]
            if base in BIND_EXPR:
                attr = BIND_EXPR[base]
                if base == "calculation" and "trigger" in c:
                    # value-changed setvalue nested in the trigger's control, targeting this node
                    vals = [e.get("value") for e in body.iter(q(XF, "setvalue")) if e.get("ref") == n.path and e.get("event") == "xforms-value-changed"]
                    check(n, "trigger-value", source, vals)
                else:
                    check(n, base, source, [b.get(attr) if b is not None else None])
            elif base in ("constraint_message", "required_message"):
                attr = TEXT_KINDS[base]
                check(n, base, source, itext_values(f"{n.path}:{attr}", None), text=True)
            elif base in ("label", "hint", "guidance_hint"):
                if n.kind == "g" and base != "guidance_hint" and "table-list" in (expect.cell(c, "appearance") or "").split():
                    continue  # documented: a table-list group's label/hint move to the generated note (audited there)
                tag = "label" if base == "label" else "hint"
                cands = []
                if n.helper == "other" or n.src is None and n.helper not in ("table-list-label",):
                    pass
                # inline element under the control (for repeats the label sits on the wrapping group)
                for ce in controls.get(n.path, []):
                    for ch in xform.elems(ce):
                        if xform.local(ch) == tag and ch.get("ref") is None:
                            cands.append(inline_text(ch))
                cands += itext_values(f"{n.path}:{tag}", "guidance" if base == "guidance_hint" else None)
                check(n, base, source, cands, text=True)
            elif base == "default":
                vals = [e.get("value") for e in v.root.iter(q(XF, "setvalue")) if e.get("ref") == n.path and "odk-instance-first-load" in (e.get("event") or "")]
                check(n, "default", source, vals)
            elif base == "choice_filter" and "${" in (c.get("type") or ""):
                check_repeat_itemset(n, source, ctrl_el)
            elif base == "choice_filter":
                cands = []
                if ctrl_el is not None:
                    for it in ctrl_el.iter(q(XF, "itemset")):
                        ns = it.get("nodeset") or ""
                        m = re.search(r"\[(.*)\]", ns, re.S)
                        if m:
                            cands.append(m.group(1))
                    if ctrl_el.get("query"):
                        m = re.search(r"\[(.*)\]", ctrl_el.get("query"), re.S)
                        if m:
                            cands.append(m.group(1))
                tbase = tt.parse_type(n.type)[0]
                check(n, "choice_filter", source, cands, predicate=tbase != "select_one_external" or True)
            elif base == "parameters":
                m = re.search(r"seed\s*=\s*(\$\{[^}]+\})", source)
                if m and ctrl_el is not None:
                    cands = []
                    for it in ctrl_el.iter(q(XF, "itemset")):
                        mm = re.search(r", (\S+)\)$", it.get("nodeset") or "")
                        if mm:
                            cands.append(mm.group(1))
                    check(n, "seed", m.group(1), cands, strip=True)
            elif base == "repeat_count" and n.kind == "r":
                if expect.PURE_REF.match(source):
                    rep = [e for e in body.iter(q(XF, "repeat")) if e.get("nodeset") == n.path]
                    check(n, "repeat_count", source, [rep[0].get(q(JR, "count")) if rep else None], strip=True)
                # non-pure expressions live on the generated <name>_count node (a helper RNode with a calculation cell)
            elif base == "trigger":
                _, rr = refs.split_source(source)
                for ls, name in rr:
                    tgt = names.get(name)
                    if tgt and len(tgt) == 1:
                        out.checked("C03.trigger-target")
                        hosts = controls.get(tgt[0].path, [])
                        found = [e for h in hosts for e in xform.elems(h) if xform.local(e) in ("setvalue", "setgeopoint") and e.get("ref") == n.path]
                        if not found:
                            out.fail("C03.trigger-target", "", f"{n.path}: no setvalue/setgeopoint with absolute ref {n.path} nested in the control of {tgt[0].path}")
            elif base == "bind" and b is not None:
                attr = col[6:]
                check(n, "bind::custom", source, [xform.attrs(b).get(attr)])
            elif base == "appearance" and ctrl_el is not None and n.kind in ("q", "g", "r"):
                check(n, "appearance", source, [ctrl_el.get("appearance")])
            elif base == "instance" and ctx_of(n) is not None:
                check(n, "instance::custom", source, [xform.attrs(ctx_of(n)).get(col[10:])])
            elif base == "body" and ctrl_el is not None:
                check(n, "body::custom", source, [xform.attrs(ctrl_el).get(col[6:])])
    # choice labels with references (context-free: absolute or resolvable from nowhere)
    for lst in form.get("lists", []):
        for idx, r in enumerate(lst["rows"]):
            for col, raw in r.items():
                if col.split("::")[0] == "label" and "${" in raw and not expect.shadowed(r, col, dlang):
                    source = common.smart(raw)
                    fake = expect.RNode("choice", "q")
                    fake.parent = None
                    vals = itext_values(f"{lst['name']}-{idx}", None)
                    # inline items of search() selects carry the label directly: not generated here
                    out.checked("C03.cell")
                    out.label("kind:choice-label")
                    toks = None
                    for a in vals:
                        for cand in (a, a[1:-1] if a[:1] == " " and a[-1:] == " " else a, a[1:] if a[:1] == " " else a, a[:-1] if a[-1:] == " " else a):
                            toks = refs.match_substituted(source, cand)
                            if toks is not None:
                                break
                        if toks is not None:
                            break
                    if toks is None:
                        out.fail("C03.cell-not-found", "choice-label", f"list {lst['name']} choice {idx}: {source!r} not found in itext; candidates {vals[:3]}")
                        continue
                    _, rr = refs.split_source(source)
                    for tok, (ls, name) in zip(toks, rr):
                        tgt = names.get(name)
                        if tgt and len(tgt) == 1:
                            bad = refs.check_token(tok, inst, None, tgt[0].path, last_saved=ls)
                            if bad:
                                out.fail("C03.ref", f"{bad[0]}|choice-label", f"choice label {source!r}: {bad[1]}")
    out.nontrivial = any_repeat
    if any_repeat:
        out.label("in-repeat")
