"""C20 -- advisory warnings fire exactly when their trigger is present."""

from __future__ import annotations

import itertools

from hypothesis import strategies as st

from vf import common, gen, model, xform
from vf.props import c01, c02
from vf.ref import warns
from vf.runner import Outcome, crash_sig

ID = "C20"
LEVEL = "exploration"
RULE = ("(i) bounded-exhaustive: all sets of <=3 (quick) / <=4 (thorough) translatable headers x {unsuffixed, lang A, lang B} on the "
        "survey sheet and on the choices sheet; all sheet-name strings within edit distance <=2 of 'settings' and 'entities' over "
        "the name's letters + {x,_,S} (quick: every 4th), plus distance-3 samples and '_' prefixes, real sheet present/absent; "
        "(ii) Hypothesis: row-level triggers (image without max-pixels, deprecated metadata, unlabeled group/repeat/choice, disabled "
        "column, or_other with translations, duplicate id headers, language labels with/without valid/invalid/malformed codes) "
        "planted in broad forms with blank rows above; non-trivial = >=1 expected warning and >=1 near miss; distinct by SHA-1")
ASSUMPTIONS = ["trigger model restated in vf/ref/warns.py (own Levenshtein, own translation-matrix rule, fixed list of well-known IANA codes)",
               "language codes outside the fixed lists are not prescribed either way"]
BUDGET = {"quick": 8000, "thorough": 300000}
EXHAUSTIVE = {"quick": False, "thorough": True}
EXHAUSTIVE_NOTE = "thorough: exhaustive over header sets up to 4 per sheet and over the distance-<=2 neighbourhood of 'settings'/'entities' on the stated alphabet"

A, B = "Aaa (en)", "Bbb (fr)"


def header_space(cols):
    return [c if l is None else f"{c}::{l}" for c in cols for l in (None, A, B)]


def neighbours(word, alphabet):
    out = {word}
    for i in range(len(word) + 1):
        for ch in alphabet:
            out.add(word[:i] + ch + word[i:])
    for i in range(len(word)):
        out.add(word[:i] + word[i + 1:])
        for ch in alphabet:
            out.add(word[:i] + ch + word[i + 1:])
    return out


def enumerate_cases(tier):
    kmax = 3 if tier == "quick" else 4
    sv = header_space(warns.SURVEY_TRANSLATABLE)
    for k in range(0, kmax + 1):
        for hs in itertools.combinations(sv, k):
            row = {"type": "calculate", "name": "q", "calculation": "1"}
            for h in hs:
                row[h] = "f.png" if h.split("::")[0] in ("image", "big-image", "audio", "video") else "t"
            yield {"form": {"nodes": [{"k": "q", "c": row}], "args": {}}, "meta": {"kind": "survey-headers"}}
    ch = header_space(warns.CHOICES_TRANSLATABLE)
    for k in range(0, kmax + 1):
        for hs in itertools.combinations(ch, k):
            crow = {"name": "c1"}
            for h in hs:
                crow[h] = "f.png" if h.split("::")[0] != "label" else "t"
            yield {"form": {"nodes": [{"k": "q", "c": {"type": "select_one l", "name": "q", "label": "Q"}}],
                            "lists": [{"name": "l", "rows": [crow]}], "args": {}}, "meta": {"kind": "choices-headers"}}
    # or_other with every layout of one or two named languages on either sheet
    lay_s = [("label",), (f"label::{A}",), ("label", f"label::{A}"), (f"label::{A}", f"label::{B}"), (f"label::{A}", f"hint::{A}"), ("label", "hint")]
    lay_c = [("label",), (f"label::{A}",), ("label", f"label::{A}"), (f"label::{A}", f"label::{B}")]
    for hs in lay_s:
        for hc in lay_c:
            for oo in ("or_other", ""):
                row = {"type": f"select_one l {oo}".strip(), "name": "q"}
                row.update({h: "t" for h in hs})
                yield {"form": {"nodes": [{"k": "q", "c": row}], "lists": [{"name": "l", "rows": [{"name": "c1", **{h: "t" for h in hc}}]}], "args": {}},
                       "meta": {"kind": "or-other-languages"}}
    step = 4 if tier == "quick" else 1
    for key in ("settings", "entities"):
        alpha = sorted(set(key) | {"x", "_", "S"})
        d1 = neighbours(key, alpha)
        d2 = set()
        for w in d1:
            d2 |= neighbours(w, alpha)
        words = sorted(d2)
        d3 = sorted({w2 for w in words[::97] for w2 in neighbours(w, alpha)} - d2)[:200]
        # names that are far from the key although they share long prefixes and suffixes with it (repeats, overlaps, affixes)
        far = [key + key, key + "_" + key, key + " " + key, key + "X" + key, key * 3, key[:4] + key, key + key[-4:], key[:5] + key[3:], key[::-1],
               "my" + key + "data", key + "_old_" + key, key[:3] + key[:3] + key[3:], key + key[:2], key[-2:] + key, key[0] * 4 + key[1:], key[:-1] + key[-1] * 4,
               key[: len(key) // 2] * 2, key[len(key) // 2:] * 2, key[:2] + key[-2:], key + "s" * 3, "s" * 3 + key]
        for i, w in enumerate(words + d3 + far):
            if i % step and w != key and w not in far:
                continue
            for present in (False, True):
                form = {"nodes": [{"k": "q", "c": {"type": "text", "name": "q", "label": "Q"}}], "args": {}, "extra_sheets": [w] if w != key else []}
                if present:
                    if key == "settings":
                        form["settings"] = {"form_title": "T"}
                    else:
                        form["entities"] = [{"dataset": "d", "label": "'x'"}]
                yield {"form": form, "meta": {"kind": "sheet-name", "key": key}}


LANG_LABELS = ["English (en)", "French (fr)", "Swahili (sw)", "Tok Pisin (tpi)", "English (eng)", "English", "Klingon", "English (xx)",
               "English (zz)", "Deutsch (english)", "English (en", "English en)", "(en) English", "English ()", "Nepali (ne)", "Amharic (am)", "xx", "EN", "q", "()", "Chinese (Simplified) (zh)", "Portuguese (Brazil) (pt)", "Nested (really) (zz)"]


@st.composite
def _cases(draw):
    prof = dict(gen.PROFILES["broad"], p_or_other=0.15, p_meta=0.2, p_params=0.5, p_choice_nolabel=0.1, p_entities=0.1, p_multilang=0.5,
                p_blank_row=0.15, lang_pool=5, settings="some", p_extra_sheets=0.0, text="plain", p_group_media=0.2)
    g = gen.G(draw, prof)
    # language labels with / without codes
    global_langs = g.shuffled(LANG_LABELS)[: g.integer(1, 3)]
    prof["langs"] = global_langs if g.p("_", 0.5) else "none"
    form = gen.build_form(draw, prof, g=g)
    planted = []
    nodes = form["nodes"]
    def add(node):
        pos = g.integer(0, len(nodes))
        nodes.insert(pos, node)
    if g.p("_", 0.3):
        add({"k": "q", "c": {"type": g.pick(["simserial", "subscriberid"]), "name": g.name("m")}})
    if g.p("_", 0.3):
        c = {"type": "image", "name": g.name(), "label": "pic"}
        if g.p("_", 0.6):
            c["parameters"] = g.pick(["max-pixels=640", "app=com.example.camera", "max-pixels=640 app=com.example.camera", "app=org.a.b"])
        add({"k": "q", "c": c})
    if g.p("_", 0.3):
        add({"k": g.pick(["g", "r"]), "c": {"name": g.name("ug")}, "ch": [{"k": "q", "c": {"type": "text", "name": g.name(), "label": "in"}}]})
    if g.p("_", 0.2):
        add({"k": "g", "c": {"name": g.name("fl"), "appearance": "field-list"}, "ch": [{"k": "q", "c": {"type": "text", "name": g.name(), "label": "in"}}]})
    if g.p("_", 0.2):
        for n, _ in model.walk(nodes):
            if n["k"] == "q" and g.p("_", 0.3):
                n["c"]["disabled"] = g.pick(["no", "false", "No"])
        add({"k": "x", "c": {"type": "text", "name": g.name("dis"), "label": "off", "disabled": "yes"}})
    if g.p("_", 0.15):
        add({"k": "x", "c": {"hint": "comment only"}})
    if g.p("_", 0.2):
        s = form.setdefault("settings", {})
        s["form_id"] = "fid1"
        s["id_string"] = "fid2"
    if g.lists and g.p("_", 0.15):
        # duplicate choice names are legal with allow_choice_duplicates; a later duplicate without a label still deserves its warning
        lst = g.pick(g.lists)
        src = g.pick(lst["rows"])
        lst["rows"].append({"name": src["name"]} if g.p("_", 0.7) else dict(src))
        form.setdefault("settings", {})["allow_choice_duplicates"] = "yes"
    if g.p("_", 0.3):
        form["extra_sheets"] = [g.pick(["setting", "settingss", "_settings", "Settings2", "entity", "entitie", "_entities", "notes", "sett", "choicez", "osmm"])]
        if g.p("_", 0.3):
            # composed names: pieces of a supported name glued together -- close in letters, far (or not) in edit distance
            key = g.pick(["settings", "entities", "choices", "survey", "osm", "external_choices"])
            a, b = g.integer(0, len(key)), g.integer(0, len(key))
            form["extra_sheets"] = [(key[:a] + g.pick(["", "", "_", " ", "x"]) + key[b:]) or "x"]
            if form["extra_sheets"][0].lower().strip() in ("survey", "choices", "settings", "entities", "osm", "external_choices"):
                form["extra_sheets"] = [key + key]
    if g.p("_", 0.1) and "form_id" in form.get("settings", {}) and "id_string" not in form["settings"]:
        # both id columns, only the id_string cell filled in: the headers are the trigger
        st_ = form["settings"]
        form["settings"] = {("id_string" if k == "form_id" else k): v for k, v in st_.items()}
        form["settings_header_extra"] = ["form_id"]
    if form.get("settings") and g.p("_", 0.08):
        # a second row on the settings sheet (a note, an older version of the settings): only the first row with content counts
        form["settings_rows_extra"] = [{k: "old " + v for k, v in list(form["settings"].items())[: g.integer(1, 3)] if k not in ("default_language", "clean_text_values", "allow_choice_duplicates")}]
    if form.get("lists") and g.p("_", 0.12):
        form["choices_blank_at"] = g.integer(0, 50)
    if g.p("_", 0.12):
        # cells taken as typed: row numbers in warnings must not depend on the switch
        form.setdefault("settings", {})["clean_text_values"] = g.pick(["no", "false"])
    if not form.get("settings") and g.p("_", 0.2):
        # a settings sheet that only has its header row yet, perhaps beside an unrelated sheet with a similar name
        form["settings_header_only"] = ["form_title", "form_id", "version"]
        if g.p("_", 0.5):
            form["sheet_names"] = dict(form.get("sheet_names", {}), settings=g.pick(["Settings", "SETTINGS", "settings", "settings ", " Settings"]))
        if g.p("_", 0.5):
            form["extra_sheets"] = [g.pick(["settings2", "setting", "notes"])]
    if g.p("_", 0.12):
        gen.respell_language(g, form)
    return {"form": form, "meta": {"kind": "random"}, "legacy_types": g.p("_", 0.2)}


def strategy(tier):
    return _cases()


def evaluate(case) -> Outcome:
    out = Outcome()
    form = case["form"]
    kind = case.get("meta", {}).get("kind", "random")
    out.label("case:" + kind)
    # a share of the forms is converted in the legacy spelling of its type cells; the expectations below come from the canonical one
    as_written = common.legacy_types(form) if case.get("legacy_types") else form
    if as_written is not form:
        out.label("legacy-type-spelling")
    status, res = common.run_form(as_written)
    if form.get("settings_rows_extra"):
        # only the first settings row with content is used: rows below it change neither the verdict nor the form, whatever
        # warnings the first row earns (advisory only)
        out.checked("C20.advisory-only")
        twin = model.clone(form)
        del twin["settings_rows_extra"]
        s2, r2 = common.run_form(common.legacy_types(twin) if case.get("legacy_types") else twin)
        if s2 != status:
            out.fail("C20.advisory-only", f"{s2}->{status}", f"without the extra settings row: {s2}; with it: {status}: {res if status != 'ok' else r2}")
        elif status == "ok" and (r2.xform != res.xform or list(r2.warnings) != list(res.warnings)):
            out.fail("C20.advisory-only", "result-differs", "a settings row below the first one changed the XForm or the warnings")
    if status == "crash":
        out.label("outcome:crash:" + crash_sig(res))
        return out
    if status == "rejected":
        out.label("outcome:rejected:" + common.err_class(res))
        return out
    got = warns.parse(res.warnings)
    exp = warns.expected(form)
    # language codes: decided from the translations actually present in the output
    try:
        v = xform.XFormView(res.xform)
    except xform.IllFormed:
        out.label("unparseable (C01's business)")
        return out
    _, order = v.translations()
    unprescribed = set()
    for lang, _ in order:
        verdict = warns.lang_is_bad(lang)
        if verdict is True:
            exp.append(("bad-language", lang, None))
        elif verdict is None:
            unprescribed.add(("bad-language", lang, None))
    exp = sorted(exp, key=repr)
    got_c = [g_ for g_ in got if g_ not in unprescribed]
    out.checked("C20.warnings")
    missing = [e for e in exp if e not in got_c]
    spurious = [g_ for g_ in got_c if g_ not in exp]
    dup = [g_ for g_ in set(got_c) if got_c.count(g_) != exp.count(g_) and g_ in exp]
    for m in missing[:1]:
        out.fail("C20.missing", m[0], f"expected warning {m} not emitted; got {got}")
    for s_ in spurious[:1]:
        out.fail("C20.spurious", s_[0], f"warning {s_} emitted without its trigger; expected {exp}")
    for d in dup[:1]:
        out.fail("C20.count", d[0], f"warning {d} emitted {got_c.count(d)}x, expected {exp.count(d)}x")
    # advisory only: the result is still a valid, unambiguous XForm
    sub = Outcome()
    vv = c01.check_xform(sub, res.xform, form, "compact")
    if vv is not None and vv.primary is not None:
        c02.check_refs(sub, vv)
    out.checked("C20.advisory")
    for vio in sub.violations[:1]:
        out.fail("C20.advisory", vio.sig, vio.msg)
    # output-neutral triggers: removing them must not change the XForm
    neutral = model.clone(form)
    changed = False
    if neutral.get("extra_sheets"):
        neutral["extra_sheets"] = []
        changed = True
    for n, _ in model.walk(neutral["nodes"]):
        if n["c"].get("disabled") in ("no", "false", "No"):
            del n["c"]["disabled"]
            changed = True
    if changed and kind == "random":
        s2, r2 = common.run_form(neutral)
        out.checked("C20.neutral")
        if s2 != "ok" or r2.xform != res.xform:
            out.fail("C20.neutral", "", "removing an output-neutral trigger (misspelled extra sheet / disabled=no cell) changed the XForm or the outcome")
    near = kind == "sheet-name" or any(n["c"].get("parameters", "").startswith("max-pixels") for n, _ in model.walk(form["nodes"])) or \
        any(warns.lang_is_bad(l) is False and l != "default" for l, _ in order) or kind.endswith("headers")
    out.nontrivial = bool(exp) and near
    for e in exp:
        out.label("expect:" + e[0])
    return out
