"""C05 -- logic cells reach the right bind unchanged, with the type the table prescribes."""

from __future__ import annotations

import re

from hypothesis import strategies as st

from vf import common, gen, model, xform
from vf.props.c04 import parse_params
from vf.ref import expect, refs
from vf.ref import typetable as tt
from vf.runner import Outcome, crash_sig

ID = "C05"
LEVEL = "exploration"
RULE = ("Hypothesis-generated forms (logic profile: each row gets a random subset of relevant/required/readonly/constraint/"
        "calculation/messages/bind:: columns with distinct expressions, parameter-derived bind attributes, logic on groups and "
        "repeats) with survey columns in random order and each under a random documented alias/case; the reference model maps "
        "every row to its expected bind attribute dict; non-trivial = accepted form with >=3 rows having >=2 logic cells each "
        "and >=1 non-canonical column spelling; distinct by SHA-1 of the case JSON")
ASSUMPTIONS = ["type table and alias table restated in vf/ref (not imported from pyxform)",
               "substituted references are compared by what they resolve to (C03 owns the relative/absolute rule)",
               "binds below /meta/entity are C19's business"]
BUDGET = {"quick": 12000, "thorough": 400000}

ALIASES = {
    "relevant": ["relevance", "bind::relevant", "Relevant", " relevant "],
    "readonly": ["read_only", "bind::readonly", "Read Only", "READONLY"],
    "calculation": ["calculate", "bind::calculate", "Calculation"],
    "constraint": ["bind::constraint", "Constraint"],
    "required": ["bind::required", "Required"],
    "constraint_message": ["constraining_message", "bind::jr:constraintMsg", "Constraint Message"],
    "required_message": ["requiredmsg", "bind::jr:requiredMsg", "Required_Message"],
    "label": ["caption", "Label"],
    "name": ["tag", "value", "Name"],
    "type": ["command", "Type"],
    "appearance": ["body::appearance", "Appearance"],
    "repeat_count": ["count", "jr:count", "body::jr:count"],
    "default": ["Default"],
    "save_to": ["bind::entities:saveto"],
}


@st.composite
def _cases(draw):
    prof = dict(gen.PROFILES["logic"], p_group_logic=0.4, p_entities=0.2, p_meta=0.15, p_repeat_count=0.3,
                p_or_other=0.1, p_calc_on_visible=0.15, p_bool_logic=0.12, p_trigger=0.15, p_trigger_logic=0.7, p_lit_ws=0.08, p_legacy_meta=0.4, p_percentage=0.4)
    g = gen.G(draw, prof)
    form = gen.build_form(draw, prof, g=g)
    if g.p("_", 0.7):
        form["survey_alias"] = {c: g.pick(a) for c, a in ALIASES.items() if g.p("_", 0.4)}
        if not form["survey_alias"]:
            del form["survey_alias"]
    if g.p("_", 0.7):
        form["survey_col_order"] = [g.integer(0, 999) for _ in range(12)]
    if g.p("_", 0.15):
        form["nodes"].append({"k": "q", "c": {"type": "audit", "parameters": g.pick([
            "track-changes=true", "identify-user=true track-changes-reasons=on-form-edit",
            "location-priority=balanced location-min-interval=60 location-max-age=300", "track-changes=false identify-user=false"])}})
    if g.p("_", 0.12):
        # the workbook as a spreadsheet file with spacer columns and typed number cells: what reaches the bind is the cell's text
        form["carrier"] = {"fmt": g.pick(["xlsx", "xlsx", "xls"]), "seed": g.integer(0, 9999)}
        for n, _ in model.walk(form["nodes"]):
            if n["k"] == "q" and n["c"].get("type") in ("calculate",) and g.p("_", 0.5):
                n["c"]["calculation"] = g.pick(["0.00005", "0.000025", "12", "2.5", "10000000000000000", "-0.00007", "0.1"])
    return {"form": form, "legacy_types": g.p("_", 0.15)}


def strategy(tier):
    return _cases()


def conv(k, v):
    if k in expect.CONVERTIBLE:
        if v in expect.BIND_TRUE:
            return "true()"
        if v in expect.BIND_FALSE:
            return "false()"
    return v


def expected_binds(form, root):
    """nodeset -> {attr: ("lit", text) | ("expr", source text) | ("itext", id)}"""
    out = {}
    for n in root.walk():
        if n.kind == "root" or not n.instance_node or n.helper in ("meta", "entity", "entity-label"):
            continue
        a = {}
        c = n.cells
        if n.helper == "instanceID":
            a = {"type": ("lit", "string"), "readonly": ("lit", "true()"), "jr:preload": ("lit", "uid")}
            out[n.path] = a
            continue
        if n.kind == "q":
            info = tt.type_info(n.type)
            if info[1] is not None:
                a["type"] = ("lit", info[1])
            for k, v in info[2].items():
                a[k] = ("lit", v)
        for col, attr in expect.BIND_COLS.items():
            lc = expect.lang_cells(c, col)
            if not lc:
                continue
            if attr == "calculate" and "trigger" in c:
                continue
            if attr in ("jr:constraintMsg", "jr:requiredMsg"):
                plain_only = set(lc) == {None}
                if plain_only and not model.REF_RE.search(lc[None]):
                    a[attr] = ("lit", lc[None])
                else:
                    a[attr] = ("lit", f"jr:itext('{n.path}:{attr}')")
                continue
            v = lc.get(None)
            if v is None:
                continue
            a[attr] = ("expr", conv(attr, v))
        for k, v in c.items():
            if k.startswith("bind::"):
                a[k[6:]] = ("expr", conv(k[6:], common.survey_clean(v)))
        if n.kind == "q":
            base = tt.parse_type(n.type)[0]
            prm = parse_params(expect.cell(c, "parameters"))
            if base in ("image", "photo") and "max-pixels" in prm:
                a["orx:max-pixels"] = ("lit", prm["max-pixels"])
            if base == "audio" and "quality" in prm:
                a["odk:quality"] = ("lit", prm["quality"])
            if base in ("geopoint", "geotrace", "geoshape") and "allow-mock-accuracy" in prm:
                a["odk:allow-mock-accuracy"] = ("lit", prm["allow-mock-accuracy"])
            if base == "range":
                vals = [prm.get("start", "1"), prm.get("end", "10"), prm.get("step", "1")]
                if any("." in x for x in vals):     # documented: any decimal parameter (0.0 is one) makes the range decimal
                    a["type"] = ("lit", "decimal")
            if base == "audit":
                for k in ("track-changes", "track-changes-reasons", "identify-user", "location-priority", "location-min-interval", "location-max-age"):
                    if k in prm:
                        a["odk:" + k] = ("lit", prm[k])
        if n.kind in ("g", "r") and not a:
            continue
        out[n.path] = a
    return out


def evaluate(case) -> Outcome:
    out = Outcome()
    form = case["form"]
    # a share of the forms is converted in the legacy spelling of its type cells ('add image prompt', ...): same binds, same parameters
    as_written = common.legacy_types(form) if case.get("legacy_types") else form
    if as_written is not form:
        out.label("legacy-type-spelling")
    status, res = common.run_form(as_written)
    if status == "crash":
        out.label("outcome:crash:" + crash_sig(res))
        return out
    if status == "rejected":
        out.label("outcome:rejected:" + common.err_class(res))
        return out
    out.label("outcome:accepted")
    try:
        v = xform.XFormView(res.xform)
    except xform.IllFormed:
        out.label("unparseable (C01's business)")
        return out
    if v.primary is None:
        return out
    root = expect.build(form)
    names = expect.by_name(root)
    exp = expected_binds(form, root)
    inst = v.live_instance()
    actual = {}
    out.checked("C05.bind-once")
    for b in v.binds:
        ns = b.get("nodeset")
        if ns is None or ns.startswith(root.path + "/meta/entity"):
            continue
        if ns in actual:
            out.fail("C05.bind-once", "", f"two binds for {ns}")
        actual[ns] = {k: val for k, val in xform.attrs(b).items() if k != "nodeset"}
    out.checked("C05.bind-set")
    for ns in exp:
        if ns not in actual:
            out.fail("C05.bind-missing", _kind(root, ns), f"no bind for {ns}; expected {exp[ns]}")
    for ns in actual:
        if ns not in exp:
            out.fail("C05.bind-extra", _kind(root, ns), f"unexpected bind for {ns}: {actual[ns]}")
    # attributes under an author-declared prefix are reported by the reader under the namespace name
    declared = dict(re.findall(r'([^\s=]+)\s*=\s*"([^"]*)"', form.get("settings", {}).get("namespaces", "") or ""))
    for ns, ea in exp.items():
        for k in [k for k in ea if ":" in k and k.split(":", 1)[0] in declared]:
            ea["{%s}%s" % (declared[k.split(":", 1)[0]], k.split(":", 1)[1])] = ea.pop(k)
    for ns, ea in exp.items():
        aa = actual.get(ns)
        if aa is None:
            continue
        ctx = xform.resolve(inst, ns)
        ctx = ctx[0] if len(ctx) == 1 else None
        for k in sorted(set(ea) | set(aa)):
            out.checked("C05.attr")
            if k not in aa:
                out.fail("C05.attr-missing", k, f"{ns}: attribute {k} missing; expected {ea[k]}; got {aa}")
                continue
            if k not in ea:
                out.fail("C05.attr-extra", k, f"{ns}: unexpected attribute {k}={aa[k]!r}")
                continue
            kind, src = ea[k]
            if kind == "lit":
                if aa[k] != src:
                    out.fail("C05.attr-value", k, f"{ns}@{k}: expected {src!r}, got {aa[k]!r}")
                continue
            toks = refs.match_substituted(src, aa[k])
            if toks is None:
                out.fail("C05.attr-value", k, f"{ns}@{k}: {aa[k]!r} is not {src!r} with references substituted")
                continue
            _, rr = refs.split_source(src)
            for tok, (ls, name) in zip(toks, rr):
                tgt = names.get(name)
                if not tgt or len(tgt) != 1:
                    continue
                if not tok.startswith(("/", "instance(")):
                    continue  # relative tokens: whether they reach the target is decided by C03
                bad = refs.check_token(tok, inst, ctx, tgt[0].path, last_saved=ls)
                if bad:
                    out.fail("C05.attr-ref", bad[0], f"{ns}@{k}: {bad[1]}")
    rows = 0
    for n, _ in model.walk(form["nodes"]):
        logic = [k for k in n["c"] if k.split("::")[0] in expect.BIND_COLS or k.startswith("bind::")]
        rows += len(logic) >= 2
    out.nontrivial = rows >= 3 and bool(form.get("survey_alias"))
    if form.get("survey_alias"):
        out.label(*("alias:" + k for k in form["survey_alias"]))
    return out


def _kind(root, ns):
    for n in root.walk():
        if n.path == ns:
            return n.helper or n.kind
    return "unknown-node"
