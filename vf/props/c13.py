"""C13 -- documented spellings and layout noise are interchangeable."""

from __future__ import annotations

import copy
import random
import re

from hypothesis import strategies as st
from lxml import etree

from vf import common, gen, model, xform
from vf.ref import warns
from vf.runner import Outcome, crash_sig
from vf.xform import XF, q

ID = "C13"
LEVEL = "exploration"
RULE = ("Hypothesis-generated broad forms x a random composition (>=1) of catalogued transformations: header case/spacing, column "
        "aliases (whole column), ':' vs '::' delimiter, question-type aliases, yes/true()/TRUE truth values, smart<->straight quotes, "
        "extra spaces around/inside survey cells, column permutation, sheet permutation, blank rows in survey/choices, unrelated or "
        "_-prefixed sheets, unknown plain survey columns, sheet-name case (xlsx container); oracle: canonical XForm equal and warning "
        "(kind, subject, row) multisets equal after the predicted row shift; non-trivial = >=3 transformation kinds actually changed "
        "the workbook; distinct by SHA-1 of the case JSON")
ASSUMPTIONS = ["translations and item children are compared order-insensitively when columns were permuted; everything else exactly",
               "an alias is applied to a whole column, never to single rows"]
BUDGET = {"quick": 8000, "thorough": 300000}

SURVEY_ALIAS = {
    "relevant": ["relevance", "bind::relevant"], "readonly": ["read_only", "bind::readonly"], "calculation": ["calculate", "bind::calculate"],
    "constraint": ["bind::constraint"], "required": ["bind::required"], "constraint_message": ["constraining_message", "bind::jr:constraintMsg"],
    "required_message": ["requiredmsg", "bind::jr:requiredMsg"], "label": ["caption"], "name": ["tag", "value"], "type": ["command"],
    "appearance": ["body::appearance"], "repeat_count": ["count", "jr:count"], "image": ["media::image", "media::Image", "Media::IMAGE"], "audio": ["media::audio", "media::Audio"],
    "video": ["media::video", "MEDIA::Video"], "big-image": ["media::big-image", "media::Big-Image"], "save_to": ["bind::entities:saveto"],
}
CHOICES_ALIAS = {"label": ["caption"], "name": ["value"], "list_name": ["list name"], "image": ["media::image", "media::Image"], "audio": ["media::audio", "Media::AUDIO"], "video": ["media::video", "media::Video"]}
SETTINGS_ALIAS = {"form_id": ["id_string", "set_form_id"], "form_title": ["title", "set_form_title"]}
KNOWN_SURVEY = set(SURVEY_ALIAS) | {"hint", "guidance_hint", "default", "trigger", "choice_filter", "parameters", "required", "constraint", "intent", "disabled"}
TYPE_ALIAS = {"select_one": ["select one", "select1"], "select_multiple": ["select all that apply"], "integer": ["int"], "image": ["photo", "add image prompt", "add photo prompt"],
              "audio": ["add audio prompt"], "video": ["add video prompt"], "file": ["add file prompt"], "deviceid": ["imei"],
              "begin group": ["begin_group"], "end group": ["end_group"], "begin repeat": ["begin_repeat", "begin looped group", "begin lgroup", "begin_lgroup"], "end repeat": ["end_repeat", "end looped group", "end lgroup", "end_looped group"],
              "select_one_from_file": ["select one from file"], "select_multiple_from_file": ["select multiple from file"]}
TRUE = ["yes", "Yes", "YES", "true", "True", "TRUE", "true()"]
FALSE = ["no", "No", "NO", "false", "False", "FALSE", "false()"]
UNRELATED = ["notes", "_settings", "lookup_data", "Sheet3", "_choices", "README", "_entities", "calculations"]
HELPER_RE = re.compile(r"(generated_note_name_|generated_table_list_label_|reserved_name_for_field_list_labels_)(\d+)")
KINDS = ["header-case", "alias", "single-colon", "type-alias", "truth", "quotes", "spaces", "col-perm", "sheet-perm", "blank-rows", "extra-sheets",
         "unknown-col", "sheet-case", "md-container"]


@st.composite
def _cases(draw):
    prof = dict(gen.PROFILES["broad"], p_table_list=0.08, p_or_other=0.1, p_meta=0.1, p_params=0.5, p_choice_nolabel=0.05, settings="some",
                p_extra_sheets=0.0, text_ctl=False, p_intent=0.15, p_bool_logic=0.1)
    g = gen.G(draw, prof)
    form = gen.build_form(draw, prof, g=g)
    if g.p("_", 0.2):
        # rows that produce row-numbered warnings / generated names
        form["nodes"].insert(g.integer(0, len(form["nodes"])), {"k": "q", "c": {"type": "note", "label": "unnamed note"}})
    if g.p("_", 0.2):
        form["nodes"].insert(g.integer(0, len(form["nodes"])), {"k": g.pick(["g", "r"]), "c": {"name": g.name("ug")}, "ch": [{"k": "q", "c": {"type": "text", "name": g.name(), "label": "in"}}]})
    if g.lists and g.p("_", 0.15):
        lst = g.pick(g.lists)
        lst["rows"].append(dict(lst["rows"][0]))
        form.setdefault("settings", {})["allow_choice_duplicates"] = g.pick(["yes", "true"])
    if g.p("_", 0.15):
        for n, _ in model.walk(form["nodes"]):
            if n["k"] == "q" and g.p("_", 0.3):
                n["c"]["disabled"] = g.pick(["no", "false"])
        form["nodes"].append({"k": "x", "c": {"type": "text", "name": g.name("off"), "label": "off", "disabled": g.pick(["yes", "true"])}})
    if g.p("_", 0.1):
        # both id columns (documented: a warning, form_id wins): their headers may be written in any case
        s_ = form.setdefault("settings", {})
        s_.setdefault("form_id", "fid_both")
        s_["id_string"] = "ids_both"
    kinds = [k for k in KINDS if g.p("_", 0.35)] or [g.pick(KINDS)]
    return {"form": form, "spec": {"seed": g.integer(0, 65535), "kinds": kinds}}


def strategy(tier):
    return _cases()


def rnd(seed, *site):
    return random.Random(f"{seed}:" + ":".join(map(str, site)))


def case_noise(r, h):
    base, sep, rest = h.partition("::")
    style = r.randrange(5)
    if style == 0:
        base = base.upper()
    elif style == 1:
        base = base.capitalize()
    elif style == 2:
        base = "  " + base + " "
    elif style == 3 and "_" in base and ":" not in base:
        base = base.replace("_", " " if r.random() < 0.5 else "   ")
    if sep and r.random() < 0.5:
        sep = " :: "
    return base + sep + rest


def transform(wb, spec):
    """workbook dict -> (transformed workbook dict, set of kinds that changed something, survey row map, choices row map)"""
    seed, kinds = spec["seed"], set(spec["kinds"])
    wb = copy.deepcopy(wb)
    done = set()
    smap, cmap = {}, {}

    def headers(sheet):
        hk = wb.get(sheet + "_header")
        return list(hk[0]) if hk else []

    def rename(sheet, mapping):
        if not mapping:
            return
        wb[sheet] = [{mapping.get(k, k): v for k, v in r.items()} for r in wb[sheet]]
        wb[sheet + "_header"] = [{mapping.get(k, k): None for k in headers(sheet)}]

    # cell-level rewrites first (they refer to canonical column names)
    if "survey" in wb:
        for i, r in enumerate(wb["survey"]):
            for k in list(r):
                v = r[k]
                base = k.split("::")[0]
                rr = rnd(seed, "cell", i, k)
                if base == "type" and "type-alias" in kinds:
                    for canon, als in TYPE_ALIAS.items():
                        if (v == canon or v.startswith(canon + " ")) and rr.random() < 0.6:
                            v = rr.choice(als) + v[len(canon):]
                            done.add("type-alias")
                            break
                    if v.endswith(" or_other") and rr.random() < 0.5:
                        v = v[: -len("or_other")] + rr.choice(["or other", "or specify other"])
                        done.add("type-alias")
                if base in ("required", "readonly", "relevant", "constraint", "calculation") and "truth" in kinds:
                    if v in TRUE:
                        v = rr.choice(TRUE)
                        done.add("truth")
                    elif v in FALSE:
                        v = rr.choice(FALSE)
                        done.add("truth")
                if base not in ("type", "name") and "quotes" in kinds and rr.random() < 0.5 and ("'" in v or '"' in v or "‘" in v or "“" in v):
                    if "‘" in v or "’" in v or "“" in v or "”" in v:
                        v = common.smart(v)
                    else:
                        v = re.sub(r"'([^']*)'", "‘\\1’", v)
                        v = re.sub(r'"([^"]*)"', "“\\1”", v)
                    done.add("quotes")
                if base not in ("type", "name") and "spaces" in kinds and rr.random() < 0.5:
                    nv = ("  " if rr.random() < 0.5 else "") + v.replace(" ", "  " if rr.random() < 0.7 else "   ") + (" " if rr.random() < 0.5 else "")
                    if nv != v:
                        v = nv
                        done.add("spaces")
                elif base == "type" and "spaces" in kinds and rr.random() < 0.3:
                    v = " " + v.replace(" ", "  ") + " "
                    done.add("spaces")
                r[k] = v
    if "truth" in kinds:
        for i, r in enumerate(wb.get("settings") or []):
            for k in ("allow_choice_duplicates", "omit_instanceID"):
                if k in r:
                    rr = rnd(seed, "sflag", k)
                    if r[k] in TRUE:
                        r[k] = rr.choice(TRUE)
                        done.add("truth")
                    elif r[k] in FALSE:
                        r[k] = rr.choice(FALSE)
                        done.add("truth")
        for i, r in enumerate(wb.get("survey") or []):
            if "disabled" in r:
                rr = rnd(seed, "dis", i)
                if r["disabled"] in TRUE:
                    r["disabled"] = rr.choice(TRUE)
                    done.add("truth")
                elif r["disabled"] in FALSE:
                    r["disabled"] = rr.choice(FALSE)
                    done.add("truth")
    if "choices" in wb and "quotes" in kinds:
        for i, r in enumerate(wb["choices"]):
            for k in list(r):
                if k.split("::")[0] == "label" and rnd(seed, "cq", i, k).random() < 0.5 and "'" in r[k] and "‘" not in r[k] and "’" not in r[k]:
                    r[k] = re.sub(r"'([^']*)'", "‘\\1’", r[k])
                    done.add("quotes")
    # whole-column aliases
    if "alias" in kinds:
        for sheet, table in (("survey", SURVEY_ALIAS), ("choices", CHOICES_ALIAS), ("settings", SETTINGS_ALIAS)):
            if sheet not in wb:
                continue
            mapping = {}
            hs = headers(sheet)
            for h in hs:
                base, sep, rest = h.partition("::")
                rr = rnd(seed, "alias", sheet, base)
                if base in table and rr.random() < 0.5:
                    al = rr.choice(table[base])
                    if sheet == "settings" and any(x in hs for x in table[base]):
                        continue
                    mapping[h] = al + sep + rest
            if mapping:
                rename(sheet, mapping)
                done.add("alias")
    # ':' instead of '::' -- only when no header needs '::' (namespaced tokens, bind/instance/body/media columns)
    if "single-colon" in kinds:
        allh = [h for sh in ("survey", "choices") if sh in wb for h in headers(sh)]
        def colon_ok(h):
            toks = h.split("::")
            # after the split, the only colon allowed inside a token is the one of a jr:/odk:/orx: name (the prefixes every XForm declares are re-joined with the next token)
            return all(":" not in t or t.strip().startswith(("jr:", "odk:", "orx:")) and t.count(":") == 1 for t in toks) and toks[0].strip() not in ("instance", "body", "media", "attribute")
        ok = all(colon_ok(h) for h in allh) and any("::" in h for h in allh) and not any("::" in h for h in headers("settings"))
        if ok:
            for sh in ("survey", "choices"):
                if sh in wb:
                    rename(sh, {h: h.replace("::", rnd(seed, "sc", h).choice([":", " : ", ": "])) for h in headers(sh) if "::" in h})
            done.add("single-colon")
    if "header-case" in kinds:
        for sheet in ("survey", "choices", "settings"):
            if sheet not in wb:
                continue
            mapping = {}
            for h in headers(sheet):
                base = h.split("::")[0].split(":")[0].strip()
                known = (sheet == "survey" and (base in KNOWN_SURVEY or base in {a for v in SURVEY_ALIAS.values() for a in v if "::" not in a})) or \
                        (sheet == "choices" and base in ("label", "name", "list_name", "image", "audio", "video", "caption", "value")) or \
                        (sheet == "settings" and base in ("form_title", "form_id", "version", "style", "submission_url", "public_key", "instance_name", "default_language", "id_string", "title"))
                if known and "::" in h or known and ":" not in h:
                    nh = case_noise(rnd(seed, "hc", sheet, h), h)
                    if nh != h and nh not in mapping.values():
                        mapping[h] = nh
            if mapping:
                rename(sheet, mapping)
                done.add("header-case")
    if "unknown-col" in kinds and "survey" in wb and wb["survey"]:
        col = "my_notes"
        wb["survey_header"] = [{**{h: None for h in headers("survey")}, col: None}]
        for i, r in enumerate(wb["survey"]):
            if r and rnd(seed, "uc", i).random() < 0.4:
                r[col] = "remember this"
        done.add("unknown-col")
    if "col-perm" in kinds:
        for sheet in ("survey", "choices", "settings"):
            if sheet in wb and len(headers(sheet)) > 1:
                hs = headers(sheet)
                rnd(seed, "perm", sheet).shuffle(hs)
                wb[sheet + "_header"] = [{h: None for h in hs}]
                wb[sheet] = [{h: r[h] for h in hs if h in r} for r in wb[sheet]]
                done.add("col-perm")
    if "blank-rows" in kinds:
        for sheet, mp in (("survey", smap), ("choices", cmap)):
            if sheet not in wb:
                continue
            new = []
            for i, r in enumerate(wb[sheet]):
                k = rnd(seed, "blank", sheet, i).choice([0, 0, 0, 1, 2, 5])
                for _ in range(k):
                    new.append({})
                    done.add("blank-rows")
                mp[i + 2] = len(new) + 2
                new.append(r)
            wb[sheet] = new
    if "extra-sheets" in kinds:
        r0 = rnd(seed, "xs")
        extra = r0.sample(UNRELATED, r0.randrange(1, 3))
        wb["sheet_names"] = list(wb.get("sheet_names", [])) + extra
        done.add("extra-sheets")
    if "sheet-perm" in kinds:
        names = list(wb.get("sheet_names", []))
        rnd(seed, "sp").shuffle(names)
        data_keys = [k for k in wb if k != "sheet_names"]
        rnd(seed, "sp2").shuffle(data_keys)
        wb2 = {k: wb[k] for k in data_keys}
        wb2["sheet_names"] = names
        wb = wb2
        done.add("sheet-perm")
    return wb, done, smap, cmap


def to_xlsx(wb, sheet_case_seed=None):
    """render a workbook dict as xlsx bytes (sheet names optionally case-mangled)"""
    import io

    from openpyxl import Workbook

    book = Workbook()
    book.remove(book.active)
    names = wb.get("sheet_names") or [k for k in wb if not k.endswith("_header")]
    for nm in names:
        key = nm if nm in wb else nm.lower()
        title = nm
        if sheet_case_seed is not None and key in wb:
            # documented: sheet names are matched whatever their case and surrounding spaces
            title = rnd(sheet_case_seed, "case", nm).choice([nm.upper(), nm.capitalize(), nm, nm + " ", " " + nm.capitalize(), nm.upper() + "  "])
        ws = book.create_sheet(title=title)
        if key in wb and isinstance(wb[key], list):
            hs = list(wb[key + "_header"][0])
            from vf.render import xlsx_append
            xlsx_append(ws, hs)
            for r in wb[key]:
                xlsx_append(ws, [r.get(h) for h in hs])
        else:
            ws.append(["note"])
            ws.append(["unrelated"])
    buf = io.BytesIO()
    book.save(buf)
    return buf.getvalue()


def md_carriable(wb) -> bool:
    for k, rows in wb.items():
        if k == "sheet_names" or k.endswith("_header") or not isinstance(rows, list):
            continue
        for r in rows:
            for v in r.values():       # (a blank row is a row of empty cells in Markdown)
                if not isinstance(v, str) or "\n" in v or "\r" in v or "\\" in v or v != v.strip() or not v.strip():
                    return False
    return True


def wb_to_md(wb) -> str:
    """render a workbook dict as a Markdown table (headers exactly as spelled in the *_header entry)"""
    lines = []
    names = wb.get("sheet_names") or [k for k in wb if not k.endswith("_header")]
    for nm in names:
        key = nm if nm in wb else nm.lower()
        lines.append(f"| {nm} |")
        if key in wb and isinstance(wb[key], list):
            hs = list(wb[key + "_header"][0])
            lines.append("| | " + " | ".join(hs) + " |")
            for r in wb[key]:
                lines.append("| | " + " | ".join(r.get(h, "").replace("|", "\\|") for h in hs) + " |")
        else:
            lines.append("| | note |")
            lines.append("| | unrelated |")
    return "\n".join(lines) + "\n"


def canon_xform(xml, sort_model=True):
    root = xform.parse(xml)
    for tr in root.iter(q(XF, "itext")):
        kids = sorted(xform.elems(tr), key=lambda e: e.get("lang") or "")
        for k in kids:
            texts = sorted(xform.elems(k), key=lambda e: e.get("id") or "")
            for t in texts:
                vals = sorted(xform.elems(t), key=lambda e: (e.get("form") or "", etree.tostring(e)))
                for v_ in xform.elems(t):
                    t.remove(v_)
                for v_ in vals:
                    v_.tail = None
                    t.append(v_)
            for t in xform.elems(k):
                k.remove(t)
            for t in texts:
                t.tail = None
                k.append(t)
        for k in xform.elems(tr):
            tr.remove(k)
        for k in kids:
            k.tail = None
            tr.append(k)
    for item in root.iter(q(XF, "item")):
        kids = sorted(xform.elems(item), key=lambda e: (e.tag, e.text or ""))
        if item.getparent() is not None and xform.local(item.getparent()) == "root":
            for k in xform.elems(item):
                item.remove(k)
            for k in kids:
                k.tail = None
                item.append(k)
    return xform.canon(root)


def evaluate(case) -> Outcome:
    out = _evaluate(case)
    if out.violations and len(case["spec"]["kinds"]) > 1:
        # attribute the failure: does a single transformation kind reproduce it?
        culprit = None
        for k in case["spec"]["kinds"]:
            o2 = _evaluate({"form": case["form"], "spec": {"seed": case["spec"]["seed"], "kinds": [k]}})
            if o2.violations:
                culprit = (k, o2)
                break
        if culprit:
            out.violations = culprit[1].violations
        else:
            for v in out.violations:
                v.sig = v.sig.split("|")[0] + "|combination"
    return out


def _evaluate(case) -> Outcome:
    out = Outcome()
    form = case["form"]
    spec = case["spec"]
    wb = model.to_workbook_dict(form)
    args = {k: v for k, v in form.get("args", {}).items() if k in ("form_name", "default_language")}
    var, done, smap, cmap = transform(wb, spec)
    use_xlsx = "sheet-case" in spec["kinds"]
    use_md = not use_xlsx and "md-container" in spec["kinds"] and md_carriable(wb) and md_carriable(var)
    if use_md:
        done.add("md-container")
        s1, a = common.run_workbook(wb_to_md(wb), **args)
        s2, b = common.run_workbook(wb_to_md(var), **args)
    elif use_xlsx:
        try:
            a_in = to_xlsx(wb)
            b_in = to_xlsx(var, sheet_case_seed=spec["seed"])
        except Exception as e:  # noqa: BLE001  (openpyxl refuses some characters: not a pyxform matter)
            out.label("xlsx-cannot-carry:" + type(e).__name__)
            return out
        done.add("sheet-case")
        s1, a = common.run_workbook(a_in, **args)
        s2, b = common.run_workbook(b_in, **args)
    else:
        s1, a = common.run_workbook(wb, **args)
        s2, b = common.run_workbook(var, **args)
    for k in done:
        out.label("applied:" + k)
    out.checked("C13.same-outcome")
    if s1 != s2:
        out.fail("C13.same-outcome", f"{s1}->{s2}|{_blame(done)}", f"original {s1}, transformed {s2}: {a if s1 != 'ok' else b}")
        return out
    if s1 != "ok":
        out.label("outcome:" + s1 + ":" + (crash_sig(a) if s1 == "crash" else common.err_class(a)))
        return out
    # predicted shifts
    def shift_x(m):
        n = int(m.group(2))
        return m.group(1) + str(smap.get(n, n))

    exp_x = HELPER_RE.sub(shift_x, a.xform)
    out.checked("C13.xform")
    try:
        ca, cb = canon_xform(exp_x), canon_xform(b.xform)
    except xform.IllFormed:
        out.label("unparseable (C01's business)")
        return out
    if ca != cb:
        d = xform.canon_diff(ca, cb) or "?"
        out.fail("C13.xform", "|" + _blame(done), d)
    wa = warns.parse(a.warnings)
    wbb = warns.parse(b.warnings)
    def shift_w(t):
        kind, subj, row = t
        if row is None or kind == "choices-header":
            return t
        mp = cmap if kind == "choice-no-label" else smap
        return (kind, subj, mp.get(row, row))
    exp_w = sorted((shift_w(t) for t in wa), key=repr)
    # sheet-misspelling subjects list similar sheet names: extra unrelated sheets are chosen far from every supported name
    out.checked("C13.warnings")
    if exp_w != wbb:
        miss = [t for t in exp_w if t not in wbb]
        extra = [t for t in wbb if t not in exp_w]
        k = (miss or extra)[0][0]
        out.fail("C13.warnings", f"{k}|{_blame(done)}", f"expected {exp_w}, got {wbb}")
    out.nontrivial = len(done) >= 3
    return out


def _blame(done):
    return "+".join(sorted(done))[:80] if len(done) <= 1 else "several"
