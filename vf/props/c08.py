"""C08 -- each language shows exactly the text written for it."""

from __future__ import annotations

import re

from hypothesis import strategies as st

from vf import common, gen, model, xform
from vf.props.c03 import inline_text
from vf.ref import expect, itext, refs
from vf.ref import typetable as tt
from vf.runner import Outcome, crash_sig
from vf.xform import XF, q

ID = "C08"
LEVEL = "exploration"
RULE = ("Hypothesis-generated forms (i18n profile, every generated text unique so cross-wiring is visible; 1-4 languages, sparse "
        "cells, unsuffixed + suffixed mixes, default_language via setting / argument / unset, '::' headers in random column order); "
        "reference model = effective text per (element, kind, language); non-trivial = accepted form with >=2 languages, >=3 "
        "translated cells and >=1 hole; distinct by SHA-1 of the case JSON")
ASSUMPTIONS = ["text shown = itext value for the language when the element refers to itext, else the inline text",
               "elements without a body control (calculate, hidden, metadata) are only checked by C07"]
BUDGET = {"quick": 12000, "thorough": 400000}


@st.composite
def _cases(draw):
    prof = dict(gen.PROFILES["i18n"], p_group_media=0.15, p_search=0.15, p_search_randomize=1, p_randomize=0.2, p_or_other=0.1, p_table_list=0.05, settings="some", p_group=0.2, p_repeat=0.15,
                p_text_ref=0.15, p_plain_too=0.3, p_arg_default_language=0.3, p_choice_label_ref=0.1, p_extra_cols=0.2, p_prefixed_names=0.1, p_osm=0.05, p_choice_nolabel=0.08)
    g = gen.G(draw, prof)
    form = gen.build_form(draw, prof, g=g)
    if g.p("_", 0.12):
        # a language name spelled with a doubled / non-breaking space or a tab in one column and in the default_language setting
        gen.respell_language(g, form)
        dl = form.get("args", {}).get("default_language")
        if dl and " " in dl and g.p("_", 0.5):
            form["args"]["default_language"] = dl.replace(" ", g.pick(["  ", "\t"]), 1)
    if form.get("lists") and g.langs and g.p("_", 0.1):
        # a label-less select with the 'label' appearance (the header row of a hand-made table) that has media only
        ln = form["lists"][0]["name"]
        c_ = {"type": f"select_one {ln}", "name": g.name("hdr"), "appearance": "label"}
        for lg in g.langs[:2]:
            c_[f"image::{lg}"] = f"hdr_{len(lg)}.png"
        if not any(ln == x for x in getattr(g, "search_lists", [])):
            form["nodes"].append({"k": "q", "c": c_})
    if g.p("_", 0.15):
        # a calculated row whose only visible content is media: it is still something to show
        for n, _ in model.walk(form["nodes"]):
            c_ = n["c"]
            if (n["k"] == "q" and c_.get("type") in ("note", "text") and any(k.split("::")[0] in ("image", "audio", "video") for k in c_)
                    and "calculation" not in c_ and "trigger" not in c_ and not any(("${%s}" % c_["name"]) in x for x in common.all_strings(form))):
                for k in [k for k in c_ if k.split("::")[0] in ("label", "hint", "guidance_hint", "constraint_message", "required_message", "constraint", "required")]:
                    del c_[k]
                c_["calculation"] = "1 + 1"
                break
    if g.p("_", 0.6):
        form["survey_col_order"] = [g.integer(0, 999) for _ in range(15)]
    if g.p("_", 0.2):
        # the workbook as a spreadsheet or CSV file the way people keep them: header-less spacer columns, runs of blank rows, typed numbers
        form["carrier"] = {"fmt": g.pick(["xlsx", "xls", "csv", "csv"]), "seed": g.integer(0, 9999)}
    return {"form": form}


def strategy(tier):
    return _cases()


INSTANCE_EXPR = re.compile(r"""instance\(\s*("[^"]*"|'[^']*')\s*\)/""")


def same_text(expected: str, actual: str) -> bool:
    if expected == actual:
        return True
    if INSTANCE_EXPR.search(expected) and "${" not in expected:
        # a complete instance('id')/... expression is shown through an <output/> like a reference: mixed content may gain a boundary space
        return actual in (f" {expected} ", f" {expected}", f"{expected} ")
    if "${" in expected:
        for cand in (actual, actual[1:-1] if actual[:1] == " " and actual[-1:] == " " else actual,
                     actual[1:] if actual[:1] == " " else actual, actual[:-1] if actual[-1:] == " " else actual):
            if refs.match_substituted(expected, cand) is not None:
                return True
    return False


def evaluate(case) -> Outcome:
    out = Outcome()
    form = case["form"]
    status, res = common.run_form(form)
    if status == "crash":
        out.label("outcome:crash:" + crash_sig(res))
        return out
    if status == "rejected":
        out.label("outcome:rejected:" + common.err_class(res))
        return out
    out.label("outcome:accepted")
    try:
        v = xform.XFormView(res.xform)
    except xform.IllFormed:
        out.label("unparseable (C01's business)")
        return out
    if v.primary is None or v.body is None:
        return out
    # the model reads language names in their cleaned spelling (doubled / non-breaking spaces and tabs in a name are one space)
    check(out, common.clean_languages(form), v)
    return out


def check(out, form, v):
    dlang = expect.default_language(form)
    root = expect.build(form)
    trans, order = v.translations()
    actual_langs = [l for l, _ in order]

    def tvalue(lang, tid, form_attr):
        els = trans.get(lang, {}).get(tid, [])
        for t in els:
            for val in xform.elems(t):
                if val.get("form") == form_attr:
                    return inline_text(val)
        return None

    controls = {}
    for el in v.body.iter():
        if isinstance(el.tag, str) and xform.local(el) in ("input", "select", "select1", "upload", "trigger", "range", "rank", "group"):
            ref = el.get("ref")
            if ref and ref not in controls:
                controls[ref] = el
    bm = v.bind_map()
    expected_langs = set()
    holes = 0
    tcells = 0

    def shown(el_or_attr, kind, tid_default):
        """-> function lang -> text for what the element shows"""

    for n in root.walk():
        if n.kind == "root" or n.helper in ("meta", "entity", "entity-label", "instanceID", "instanceName", "count"):
            continue
        c = n.cells
        if n.kind == "g" and "table-list" in (expect.cell(c, "appearance") or "").split():
            c = {k: val for k, val in c.items() if k.split("::")[0] not in ("label", "hint")}
        m, media = itext.element_model(c, dlang)
        expected_langs |= itext.langs_of(m, media)
        ctrl = controls.get(n.path)
        has_ctrl = expect.expected_control(n) is not None and ctrl is not None
        for kind, (mode, val) in m.items():
            if mode == "itext":
                tcells += len(val)
            if kind in ("label", "hint", "guidance"):
                if not has_ctrl or (n.kind in ("g", "r") and kind != "label"):
                    continue
                tag = "label" if kind == "label" else "hint"
                el = next((ch for ch in xform.elems(ctrl) if xform.local(ch) == tag), None)
                out.checked("C08.text")
                if el is None:
                    out.fail("C08.element-missing", kind, f"{n.path}: no <{tag}> under its control")
                    continue
                tid = xform.itext_id(el.get("ref"))
                if mode == "inline":
                    if tid is not None:
                        # allowed only if every language then shows this text -- check through itext
                        for lang in actual_langs:
                            got = tvalue(lang, tid, None)
                            if got is None or not same_text(val, got):
                                out.fail("C08.text", f"{kind}:inline-vs-itext", f"{n.path} {kind}: untranslated text {val!r} but language {lang!r} shows {got!r}")
                                break
                    elif not same_text(val, inline_text(el)):
                        out.fail("C08.text", f"{kind}:inline", f"{n.path} {kind}: expected inline {val!r}, got {inline_text(el)!r}")
                    continue
                if tid is None:
                    out.fail("C08.text", f"{kind}:itext-expected", f"{n.path} {kind}: translated cells {val} but the element shows inline {inline_text(el)!r}")
                    continue
                for lang in actual_langs:
                    want = val.get(lang, "-")
                    if lang not in val:
                        holes += 1
                    got = tvalue(lang, tid, "guidance" if kind == "guidance" else None)
                    if got is None or not same_text(want, got):
                        out.fail("C08.text", f"{kind}:{'hole' if lang not in val else 'value'}", f"{n.path} {kind} [{lang}]: expected {want!r}, shown {got!r}")
                        break
            else:  # bind messages
                binds = bm.get(n.path, [])
                if not binds:
                    continue
                out.checked("C08.text")
                attr = xform.attrs(binds[0]).get(kind)
                tid = xform.itext_id(attr)
                if mode == "inline":
                    # attribute-carried text: TAB/LF/CR must be written as character references to survive a parser
                    if attr != val:
                        out.fail("C08.text", f"{kind}:inline", f"{n.path} {kind}: expected {val!r}, got {attr!r}")
                    continue
                if tid is None:
                    out.fail("C08.text", f"{kind}:itext-expected", f"{n.path} {kind}: translated cells {val} but bind has {attr!r}")
                    continue
                for lang in actual_langs:
                    want = val.get(lang, "-")
                    if lang not in val:
                        holes += 1
                    got = tvalue(lang, tid, None)
                    if got is None or not same_text(want, got):
                        out.fail("C08.text", f"{kind}:{'hole' if lang not in val else 'value'}", f"{n.path} {kind} [{lang}]: expected {want!r}, shown {got!r}")
                        break
        if media and expect.expected_control(n) is not None and ctrl is None and n.kind == "q":
            # media is something to show: a row that has some must have a control that shows it
            out.checked("C08.media")
            out.fail("C08.media", "no-control", f"{n.path}: media {sorted(media)} written but the row has no body control")
        if media and has_ctrl:
            el = next((ch for ch in xform.elems(ctrl) if xform.local(ch) == "label"), None)
            tid = xform.itext_id(el.get("ref")) if el is not None else None
            out.checked("C08.media")
            if tid is None:
                out.fail("C08.media", "no-itext-ref", f"{n.path}: media cells {media} but label has no itext ref")
            else:
                for mt, lm in media.items():
                    for lang in actual_langs:
                        want = itext.MEDIA_PREFIX[mt] + lm[lang] if lang in lm else None
                        got = tvalue(lang, tid, mt)
                        if want != got:
                            out.fail("C08.media", f"{mt}:{'hole' if want is None else 'value'}", f"{n.path} {mt} [{lang}]: expected {want!r}, got {got!r}")
                            break
    # choices
    sec = v.secondary()
    used_by_search = set()
    for n in root.walk():
        if n.kind == "q" and n.src is not None and "search(" in (n.cells.get("appearance") or ""):
            used_by_search.add(tt.parse_type(n.type)[1])
    other_lists = set()
    for n in root.walk():
        if n.kind == "q" and n.src is not None and n.type and tt.parse_type(n.type)[2]:
            other_lists.add(tt.parse_type(n.type)[1])
    for lst in form.get("lists", []):
        rows = list(lst["rows"])
        if lst["name"] in other_lists and not any(r.get("name") == "other" for r in rows):
            _, mr = itext.list_model({"rows": rows}, dlang)
            if any(suff for _, _, _, suff in mr):
                # documented: 'Other' is added for the languages of the translated labels of that list
                langs_ = set()
                for lab, _, _, suff in mr:
                    if suff:
                        langs_ |= set(lab)
                rows = rows + [{"name": "other", **{f"label::{l}": "Other" for l in sorted(langs_)}}]
            else:
                rows = rows + [{"name": "other", "label": "Other"}]
        req, model_rows = itext.list_model({"rows": rows}, dlang)
        for lab, plain, media, suff in model_rows:
            if req:
                expected_langs |= set(lab)
                for lm in media.values():
                    expected_langs |= set(lm)
        inst = sec.get(lst["name"])
        if lst["name"] in used_by_search:
            # in-line items (the search() appearance): what each language's user is shown is decided the same way, per select
            for n in root.walk():
                if not (n.kind == "q" and n.src is not None and "search(" in (n.cells.get("appearance") or "") and tt.parse_type(n.type)[1] == lst["name"]):
                    continue
                ctrl = [e for e in v.body.iter() if isinstance(e.tag, str) and e.get("ref") == n.path and xform.local(e) in ("select", "select1")]
                if len(ctrl) != 1:
                    continue
                items = [e for e in xform.elems(ctrl[0]) if xform.local(e) == "item"]
                if len(items) != len(model_rows):
                    continue  # C09's business
                for idx, (it, (lab, plain, media, suff)) in enumerate(zip(items, model_rows)):
                    out.checked("C08.choice")
                    lel = next((e for e in xform.elems(it) if xform.local(e) == "label"), None)
                    ref_ = lel.get("ref") if lel is not None else None
                    if req:
                        mm = re.fullmatch(r"jr:itext\('(.*)'\)", ref_ or "")
                        if not mm:
                            out.fail("C08.choice", "search-item:not-itext", f"{n.path} item {idx}: the list is translated but the item's label is {ref_!r} / {(lel.text if lel is not None else None)!r}")
                            continue
                        tid = mm.group(1)
                        for lang in actual_langs:
                            want = lab.get(lang, "-") if (lab or not media) else None
                            got = tvalue(lang, tid, None)
                            if want is None:
                                continue
                            if got is None or not same_text(want, got):
                                out.fail("C08.choice", "search-item:label:" + ("hole" if lang not in lab else "value"), f"{n.path} item {idx} [{lang}]: expected {want!r}, shown {got!r}")
                                break
                        for mt, lm in media.items():
                            for lang in actual_langs:
                                want = itext.MEDIA_PREFIX[mt] + lm[lang] if lang in lm else None
                                got = tvalue(lang, tid, mt)
                                if want != got:
                                    out.fail("C08.choice", f"search-item:media:{mt}", f"{n.path} item {idx} {mt} [{lang}]: expected {want!r}, got {got!r}")
                                    break
                    else:
                        got = inline_text(lel) if lel is not None else None
                        if (plain or None) != (got or None) and not (plain and got is not None and same_text(plain, got)):
                            out.fail("C08.choice", "search-item:inline-label", f"{n.path} item {idx}: expected label {plain!r}, got {got!r}")
            continue
        if inst is None:
            continue  # C09's business
        items = [e for e in inst.iter(q(XF, "item"))]
        if len(items) != len(model_rows):
            continue  # C09's business
        for idx, (it, (lab, plain, media, suff)) in enumerate(zip(items, model_rows)):
            out.checked("C08.choice")
            kids = {xform.local(e): e for e in xform.elems(it)}
            if req:
                tcells += len(lab)
                if "itextId" not in kids:
                    out.fail("C08.choice", "itextId-missing", f"list {lst['name']} item {idx}: translated list but item has no itextId")
                    continue
                tid = kids["itextId"].text
                for lang in actual_langs:
                    want = lab.get(lang, "-") if (lab or not media) else None
                    got = tvalue(lang, tid, None)
                    if lang not in lab:
                        holes += 1
                    if want is None:
                        continue
                    if got is None or not same_text(want, got):
                        out.fail("C08.choice", "label:" + ("hole" if lang not in lab else "value"), f"list {lst['name']} choice {idx} [{lang}]: expected {want!r}, shown {got!r}")
                        break
                for mt, lm in media.items():
                    for lang in actual_langs:
                        want = itext.MEDIA_PREFIX[mt] + lm[lang] if lang in lm else None
                        got = tvalue(lang, tid, mt)
                        if want != got:
                            out.fail("C08.choice", f"media:{mt}", f"list {lst['name']} choice {idx} {mt} [{lang}]: expected {want!r}, got {got!r}")
                            break
            else:
                got = kids["label"].text if "label" in kids else None
                if (plain or None) != (got or None):
                    out.fail("C08.choice", "inline-label", f"list {lst['name']} choice {idx}: expected label {plain!r}, got {got!r}")
    # osm tags are choice-like rows of the osm sheet: their translated labels mention languages too
    osm_lists = {}
    for r in form.get("osm") or []:
        osm_lists.setdefault(r.get("list_name"), []).append({k: val for k, val in r.items() if k != "list_name"})
    for rows in osm_lists.values():
        for r in rows:
            m, media = itext.element_model(r, dlang)
            expected_langs |= itext.langs_of(m, media)
    out.checked("C08.languages")
    if set(actual_langs) != expected_langs:
        extra = sorted(set(actual_langs) - expected_langs)
        miss = sorted(expected_langs - set(actual_langs))
        out.fail("C08.languages", "invented" if extra else "missing", f"translations {actual_langs}; expected {sorted(expected_langs)} (extra {extra}, missing {miss})")
    out.nontrivial = len(actual_langs) >= 2 and tcells >= 3 and holes >= 1
    out.label(f"langs:{min(len(actual_langs), 4)}")
    if holes:
        out.label("has-hole")
