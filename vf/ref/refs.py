"""Reference substitution oracle helpers (C03, C05, C10, C11, C19).

pyxform replaces each ${name} by ' <path> ' (a path token surrounded by single
spaces).  `match_substituted` recovers the path tokens from an output value given
the source cell; `check_token` decides whether a token reaches the target.
"""

from __future__ import annotations

import re

from vf import model, xform

LAST_SAVED_PREFIX = "instance('__last-saved')"


def split_source(source: str):
    """-> (literal pieces [n+1], refs [(last_saved, name)] [n])"""
    lits, refs, pos = [], [], 0
    for m in model.REF_RE.finditer(source):
        lits.append(source[pos:m.start()])
        refs.append((m.group(1) is not None, m.group(2)))
        pos = m.end()
    lits.append(source[pos:])
    return lits, refs


def match_substituted(source: str, actual: str, strip=False):
    """If `actual` is `source` with every ${ref} replaced by ' token ', return the tokens; else None."""
    lits, refs = split_source(source)
    if not refs:
        return [] if (actual.strip() if strip else actual) == (source.strip() if strip else source) else None
    pat = [re.escape(lits[0])]
    for lit in lits[1:]:
        pat.append(r" (\S+) ")
        pat.append(re.escape(lit))
    rx = "".join(pat)
    m = re.fullmatch(rx, actual)
    if not m and strip:
        # call sites that .strip() the substituted text: a ref at either end loses its outer space
        for cand in (" " + actual + " ", " " + actual, actual + " "):
            m = re.fullmatch(rx, cand)
            if m:
                break
    if not m:
        return None
    return list(m.groups())


def in_indexed_repeat(source: str, ref_index: int) -> bool:
    """is the ref_index-th ${...} of source inside an indexed-repeat( ... ) call?"""
    ms = list(model.REF_RE.finditer(source))
    pos = ms[ref_index].start()
    for m in re.finditer(r"indexed-repeat\(", source):
        depth, i = 1, m.end()
        while i < len(source) and depth:
            depth += source[i] == "("
            depth -= source[i] == ")"
            i += 1
        if m.end() <= pos < i:
            return True
    return False


def in_instance_predicate(source: str, ref_index: int) -> bool:
    """is the ref inside [ ... ] of an expression that contains instance( ?"""
    if "instance(" not in source:
        return False
    ms = list(model.REF_RE.finditer(source))
    pos = ms[ref_index].start()
    depth = 0
    for ch in source[:pos]:
        depth += ch == "["
        depth -= ch == "]"
    return depth > 0


def check_token(token, inst, context_el, target_path, *, last_saved=False, must_relative=None, need_current=False):
    """-> None if fine, else (tag, message).
    inst: template-free actual instance root; context_el: element of inst the cell belongs to (or None)."""
    t = token
    if last_saved:
        if not t.startswith(LAST_SAVED_PREFIX):
            return "last-saved-prefix", f"{token!r} lacks {LAST_SAVED_PREFIX}"
        t = t[len(LAST_SAVED_PREFIX):]
        if t != target_path:
            return "last-saved-path", f"{token!r}: expected absolute {target_path}"
        return None
    if t.startswith(LAST_SAVED_PREFIX):
        return "unexpected-last-saved", f"{token!r}"
    if t.startswith("/"):
        if t != target_path:
            return "wrong-absolute", f"{token!r} != {target_path}"
        if must_relative:
            return "absolute-where-relative-required", f"{token!r} should be relative (target shares the referrer's repeat)"
        return None
    # relative
    if context_el is None:
        return "relative-without-context", f"{token!r}"
    hits = xform.resolve(inst, t, context_el)
    paths = sorted({xform.node_path(h) for h in hits})
    if paths != [target_path]:
        return "wrong-relative", f"{token!r} from {xform.node_path(context_el)} reaches {paths}, expected {target_path}"
    if need_current and not t.startswith("current()/"):
        return "missing-current", f"{token!r} inside a secondary-instance predicate must start with current()/"
    return None


def must_be_relative(referrer, target) -> bool:
    """statement C03(b): relative whenever the target's innermost enclosing repeat also encloses the referrer"""
    rep = target.innermost_repeat()
    if rep is None:
        return False
    return any(a is rep for a in referrer.ancestors())
