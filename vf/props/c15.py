"""C15 -- pretty_print is purely cosmetic."""

from __future__ import annotations

from hypothesis import strategies as st

from vf import common, gen, model, xform
from vf.runner import Outcome, crash_sig

ID = "C15"
LEVEL = "exploration"
RULE = ("Hypothesis-generated forms (broad/text profiles weighted towards labels, hints and itext values that mix text with "
        "1-3 ${refs} in every position, leading/trailing/double spaces, table-list helper labels) converted with "
        "pretty_print False and True (convert(), Survey.print_xform_to_file() and, for a quarter of the cases, the file-to-file entry point xls2xform_convert()); texts that quote serialiser markup or hold U+2028/U+2029/U+0085; non-trivial = accepted form whose output has >=1 mixed text+<output> element; "
        "distinct by SHA-1 of the case JSON")
ASSUMPTIONS = ["both outputs are parsed by libxml2; whitespace-only text is ignored only in elements that have element children other than <output/> and no non-blank text"]
BUDGET = {"quick": 12000, "thorough": 400000}


@st.composite
def _cases(draw):
    which = draw(st.integers(0, 2))
    base = gen.PROFILES["text" if which == 0 else "broad"]
    prof = dict(base, p_text_ref=0.6, p_table_list=0.1, p_hint=0.5, p_guidance=0.2, p_choice_label_ref=0.3, p_tag_names=0.12, p_default=0.3, p_osm=0.03,
                p_extra_cols=0.5, p_refs_only=0.06, p_lit_ws=0.1)
    g = gen.G(draw, prof)
    form = gen.build_form(draw, prof, g=g)
    if form.get("lists") and g.p("_", 0.12):
        ln = form["lists"][0]["name"]
        qs = [n for n, _ in model.walk(form["nodes"]) if n["k"] == "q" and "label" in n["c"] and "calculation" not in n["c"] and "trigger" not in n["c"]]
        for n in qs[: g.integer(1, 2)]:
            n["c"]["label"] = f"A instance('{ln}')/root/item[name = 'c1']/label B instance('{ln}')/root/item[name = 'c2']/label C"
    if g.p("_", 0.15):
        # Unicode line/paragraph separators and NEL inside texts (pasted from a word processor): ordinary characters of the text
        for n, _ in model.walk(form["nodes"]):
            for k in list(n["c"]):
                if k.split("::")[0] in ("label", "hint", "constraint_message", "required_message", "guidance_hint") and g.p("_", 0.3):
                    n["c"][k] = n["c"][k] + " a" + g.pick(["\u2028", "\u2029", "\x85"]) + "b"
        for lst in form.get("lists", []):
            for r in lst["rows"]:
                for k in list(r):
                    if k.split("::")[0] == "label" and g.p("_", 0.3):
                        r[k] = r[k] + " a" + g.pick(["\u2028", "\u2029", "\x85"]) + "b"
    if g.p("_", 0.15):
        # text that quotes markup the serialiser itself writes (a training form about XForms): it is text, in both modes
        quoted = [' xmlns:odk="http://www.opendatakit.org/xforms" ', ' xmlns="u" x', "a\n    <h:head> b", "see <label> here", ' <?xml version="1.0"?>', "a />\n  b", ' xmlns:jr="x"']
        for n, _ in model.walk(form["nodes"]):
            for k in list(n["c"]):
                if k.split("::")[0] in ("label", "hint", "constraint_message", "required_message", "guidance_hint") and g.p("_", 0.3):
                    n["c"][k] = n["c"][k] + " add" + g.pick(quoted) + "to it"
        for lst in form.get("lists", []):
            for r in lst["rows"]:
                for k in list(r):
                    if k.split("::")[0] == "label" and g.p("_", 0.2):
                        r[k] = r[k] + " add" + g.pick(quoted) + "to it"
    return {"form": form, "file_api": g.p("_", 0.25)}


def strategy(tier):
    return _cases()


def evaluate(case) -> Outcome:
    out = Outcome()
    form = case["form"]
    s1, a = common.run_form(form, pretty=False)
    s2, b = common.run_form(form, pretty=True)
    out.checked("C15.same-outcome")
    if s1 != s2:
        out.fail("C15.same-outcome", "", f"compact: {s1}, pretty: {s2}: {a if s1 != 'ok' else b}")
        return out
    if s1 != "ok":
        out.label("outcome:" + s1 + ":" + (crash_sig(a) if s1 == "crash" else common.err_class(a)))
        return out
    parsed = []
    for r_ in (a, b):
        try:
            parsed.append(xform.parse(r_.xform))
        except xform.IllFormed as e:
            parsed.append(e)
    out.checked("C15.same-tree")
    bad = [isinstance(x, xform.IllFormed) for x in parsed]
    if all(bad):
        out.label("unparseable (C01's business)")
        return out
    if any(bad):
        # one mode gives a document, the other does not: not the same XML document
        out.fail("C15.same-tree", "one-mode-ill-formed", f"{'compact' if bad[0] else 'pretty'} output is not well-formed: {parsed[bad.index(True)]}")
        return out
    ta, tb = parsed
    ca, cb = xform.canon(ta), xform.canon(tb)
    if ca != cb:
        d = xform.canon_diff(ca, cb) or "?"
        kind = "text" if ": text " in d else "attr" if ": attr " in d else "structure"
        out.fail("C15.same-tree", kind, d)
    # the survey's own file writer takes the same switch
    sv = getattr(a, "_survey", None)
    if sv is not None and ca == cb:
        import os
        import tempfile
        d_ = tempfile.mkdtemp(prefix="vf_c15_")
        try:
            for mode, want in ((False, ca), (True, ca)):
                out.checked("C15.file-writer")
                path = os.path.join(d_, f"f{int(mode)}.xml")
                try:
                    sv.print_xform_to_file(path, validate=False, pretty_print=mode)
                    with open(path, encoding="utf-8") as fh:
                        txt = fh.read()
                    got = xform.canon(xform.parse(txt))
                except xform.IllFormed as e:
                    out.fail("C15.file-writer", "ill-formed", f"print_xform_to_file(pretty_print={mode}): {e}")
                    continue
                except Exception as e:  # noqa: BLE001
                    out.fail("C15.file-writer", "raises:" + crash_sig(e), f"print_xform_to_file(pretty_print={mode}): {e!r}")
                    continue
                if got != want:
                    dd = xform.canon_diff(want, got) or "?"
                    out.fail("C15.file-writer", "text" if ": text " in dd else "attr" if ": attr " in dd else "structure", f"print_xform_to_file(pretty_print={mode}): {dd}")
        finally:
            import shutil
            shutil.rmtree(d_, ignore_errors=True)
    if case.get("file_api") and ca == cb:
        file_api(out, form, ca)
    out.checked("C15.warnings")
    if a.warnings != b.warnings:
        out.fail("C15.warnings", "", f"{a.warnings} vs {b.warnings}")
    mixed = ta.xpath("count(//*[*[local-name()='output'] and normalize-space(text()[1]) != ''])") > 0 or \
        ta.xpath("count(//*[local-name()='output'])") > 0
    out.nontrivial = bool(mixed)
    if mixed:
        out.label("mixed-content")
    return out


def file_api(out, form, want):
    """xls2xform_convert(): the file-to-file entry point behind the command line tool writes the same document in both modes"""
    import os
    import shutil
    import tempfile

    from pyxform.xls2xform import xls2xform_convert

    from vf import render
    d_ = tempfile.mkdtemp(prefix="vf_c15f_")
    try:
        f = dict(form)
        f.setdefault("args", {})
        if render.md_ok(f):
            src = os.path.join(d_, "form.md")
            with open(src, "w", encoding="utf-8") as fh:
                fh.write(render.to_md(f))
        else:
            src = os.path.join(d_, "form.xlsx")
            with open(src, "wb") as fh:
                fh.write(render.to_xlsx(f))
        # the reference for a file delivery is the compact document of the same file (ids and titles default to the file name)
        trees = {}
        for mode in (False, True):
            out.checked("C15.file-api")
            dst = os.path.join(d_, f"o{int(mode)}.xml")
            try:
                xls2xform_convert(src, dst, validate=False, pretty_print=mode)
                with open(dst, encoding="utf-8", newline="") as fh:
                    trees[mode] = xform.canon(xform.parse(fh.read()))
            except xform.IllFormed as e:
                out.fail("C15.file-api", "ill-formed", f"xls2xform_convert(pretty_print={mode}): {e}")
                return
            except Exception as e:  # noqa: BLE001
                out.label("file-api-refused:" + type(e).__name__)
                return
        out.label("file-api")
        if trees[False] != trees[True]:
            dd = xform.canon_diff(trees[False], trees[True]) or "?"
            out.fail("C15.file-api", "text" if ": text " in dd else "attr" if ": attr " in dd else "structure", f"xls2xform_convert compact vs pretty: {dd}")
    finally:
        shutil.rmtree(d_, ignore_errors=True)
