"""C02 -- model, instance and body agree: every nodeset/ref names exactly one existing node."""

from __future__ import annotations

from hypothesis import strategies as st

from vf import common, gen, model, xform
from vf.runner import Outcome, crash_sig
from vf.xform import JR, NS, ODK, XF, q
from vf.props import c01

ID = "C02"
LEVEL = "exploration"
RULE = ("Hypothesis-generated forms (struct/broad profiles; 25% 'collision' cases that name user rows like generated helpers "
        "(<r>_count, <q>_other, meta, instanceID), duplicate sibling names (same / case variant), reuse a section name or the "
        "form name); non-trivial = accepted form with >=2 generated helper nodes or nesting depth >=2, or a collision case "
        "(either outcome); distinct by SHA-1 of the case JSON")
ASSUMPTIONS = ["paths are resolved statically over the parsed primary instance with jr:template copies removed",
               "only absolute location paths are expected in nodeset/ref of binds, controls, repeats and actions"]
BUDGET = {"quick": 12000, "thorough": 400000}

CONTROL_TAGS = {q(XF, t) for t in ("input", "select", "select1", "upload", "trigger", "range", "group", "repeat")} | {q(ODK, "rank")}
ACTION_TAGS = {q(XF, "setvalue"), q(ODK, "setgeopoint"), q(ODK, "recordaudio")}


def collide(g, form):
    """mutate a valid form so that some names may become ambiguous; pyxform must reject or keep paths unique"""
    named = [(n, anc) for n, anc in model.walk(form["nodes"]) if n["k"] != "x" and "name" in n["c"]]
    if not named:
        return "none"
    kind = g.pick(["helper_count", "helper_other", "meta", "dup_sibling", "dup_case", "dup_elsewhere", "section_twice",
                   "form_name", "instanceID", "dup_cross_section", "dup_line_feed", "path_attribute", "path_attribute", "flat_column"])
    n, anc = g.pick(named)
    reps = [x for x, _ in named if x["k"] == "r"]
    qs = [x for x, _ in named if x["k"] == "q"]
    secs = [x for x, _ in named if x["k"] in ("g", "r")]
    if kind == "helper_count" and reps:
        r = g.pick(reps)
        r["c"]["repeat_count"] = "${%s} + 1" % qs[0]["c"]["name"] if qs else "1 + 1"
        n["c"]["name"] = r["c"]["name"] + "_count" if n is not r else n["c"]["name"]
    elif kind == "helper_other":
        sel = [x for x in qs if x["c"]["type"].startswith(("select_one ", "select_multiple ")) and "choice_filter" not in x["c"]
               and "_from_file" not in x["c"]["type"]]
        if sel:
            s_ = g.pick(sel)
            if not s_["c"]["type"].endswith("or_other"):
                s_["c"]["type"] += " or_other"
            if n is not s_:
                n["c"]["name"] = s_["c"]["name"] + "_other"
    elif kind == "meta":
        n["c"]["name"] = "meta"
    elif kind == "instanceID":
        n["c"]["name"] = g.pick(["instanceID", "instanceName", "audit", "entity"])
    elif kind in ("dup_sibling", "dup_case", "dup_elsewhere", "dup_cross_section"):
        other, _ = g.pick(named)
        if other is not n:
            nm = other["c"]["name"]
            n["c"]["name"] = nm.upper() if kind == "dup_case" and nm.upper() != nm else nm
    elif kind == "path_attribute":
        # a column that would set the generated path itself: refused, or at least never two binds / controls on one node
        other, _ = g.pick(named)
        if other is not n:
            root = form.get("settings", {}).get("name", form.get("args", {}).get("form_name", "data"))
            n["c"][g.pick(["bind::nodeset", "body::ref", "body::nodeset", "action::ref"])] = g.pick([f"/{root}/{other['c']['name']}", f"/{root}/gone"])
            if g.p("_", 0.3):
                form["nodes"].append({"k": "q", "c": {"type": g.pick(["background-audio", "start-geopoint"]), "name": "bgact",
                                                      "action::ref": f"/{root}/gone"}})
    elif kind == "flat_column":
        # a survey column that happens to be called like the internal annotation of the flat setting
        for x in secs:
            if g.p("_", 0.6):
                x["c"]["flat"] = g.pick(["yes", "true", "1"])
        inner = [x for x, a in named if x["k"] == "q" and a]
        if inner and g.p("_", 0.7):
            form["nodes"].append({"k": "q", "c": {"type": "text", "name": g.pick(inner)["c"]["name"], "label": "same name at the top"}})
    elif kind == "dup_line_feed":
        # cells kept as typed (documented clean_text_values=no): a name followed by a line feed is written as the same XML name
        other, _ = g.pick(named)
        if other is not n:
            n["c"]["name"] = other["c"]["name"] + g.pick(["\n", "\n", " ", "\t"])
            form.setdefault("settings", {})["clean_text_values"] = "no"
    elif kind == "section_twice" and len(secs) >= 1:
        s_ = g.pick(secs)
        if n is not s_:
            n["c"]["name"] = s_["c"]["name"]
    elif kind == "form_name":
        n["c"]["name"] = form.get("settings", {}).get("name", form.get("args", {}).get("form_name", "data"))
    return kind


@st.composite
def _cases(draw):
    prof = dict(gen.PROFILES["struct"], p_reuse_names=0.25, p_repeat_count=0.6, p_or_other=0.3, p_default=0.3, p_trigger=0.15, p_meta=0.2,
                p_entities=0.25, p_table_list=0.12, p_external=0.05)
    g = gen.G(draw, prof)
    form = gen.build_form(draw, prof, g=g)
    c = {"form": form}
    if g.p("_", 0.25):
        c["collision"] = collide(g, form)
    if g.p("_", 0.06):
        # the legacy 'flat' setting hoists the content of groups into their parent
        form.setdefault("settings", {})["flat"] = "yes"
        c["flat"] = True
        inner = [n for n, anc in model.walk(form["nodes"]) if n["k"] == "q" and anc and "name" in n["c"]]
        if inner and g.p("_", 0.4):
            # an empty group keeps its own node: a hoisted question of the same name lands beside it
            form["nodes"].insert(g.integer(0, len(form["nodes"])), {"k": "g", "c": {"name": g.pick(inner)["c"]["name"], "label": "E"}, "ch": []})
        grps = [n for n, _ in model.walk(form["nodes"]) if n["k"] == "g" and n.get("ch")]
        if grps and g.p("_", 0.4):
            # an external-instance row (no node of its own) in the middle of a hoisted group
            gr = g.pick(grps)
            gr["ch"].insert(g.integer(0, len(gr["ch"])), {"k": "q", "c": {"type": g.pick(["csv-external", "xml-external"]), "name": g.name("ext")}})
        for n, _ in model.walk(form["nodes"]):
            if n["k"] == "g" and n.get("ch") and g.p("_", 0.4):
                # logic on a flattened group other than relevance: the group has no node of its own to bind
                n["c"][g.pick(["readonly", "required", "bind::custom"])] = g.pick(["yes", "true()", "${%s} = 1" % g.names[0] if g.names else "yes"])
    if g.p("_", 0.12):
        c["collision"] = triple(g, form) or c.get("collision")
    return c


def triple(g, form):
    """the name of a triggered calculation used two more times elsewhere: the setvalue must still target the triggered row, or the form be refused"""
    trig = [(n, anc) for n, anc in model.walk(form["nodes"]) if n["k"] == "q" and "trigger" in n["c"] and "name" in n["c"]]
    if not trig:
        return None
    t, _ = g.pick(trig)
    for i in range(g.pick([2, 2, 4])):
        form["nodes"].append({"k": "g", "c": {"name": f"tri{i}_" + str(g.integer(100, 999)), "label": "T"},
                              "ch": [{"k": "q", "c": {"type": "text", "name": t["c"]["name"], "label": "same name"}}]})
    return "triggered_name_thrice"


def strategy(tier):
    return _cases()


def evaluate(case) -> Outcome:
    out = Outcome()
    form = case["form"]
    status, res = common.run_form(form)
    coll = case.get("collision")
    if coll:
        out.label("collision:" + coll)
    if status == "crash":
        out.label("outcome:crash:" + crash_sig(res))
        return out
    if status == "rejected":
        out.label("outcome:rejected:" + common.err_class(res))
        out.nontrivial = bool(coll)
        return out
    out.label("outcome:accepted")
    v = c01.check_xform(Outcome(), res.xform, form, "compact")
    if v is None or v.primary is None:
        out.label("unparseable (C01's business)")
        return out
    check_refs(out, v)
    check_action_targets(out, form, v)
    depth = max((len(anc) for _, anc in model.walk(form["nodes"])), default=0)
    helpers = sum(1 for e in v.primary.iter() if isinstance(e.tag, str) and (
        xform.local(e).endswith(("_count", "_other")) or xform.local(e).startswith(("generated_", "reserved_name_"))
        or xform.local(e) in ("instanceID", "instanceName", "audit", "entity")))
    out.nontrivial = bool(coll) or depth >= 2 or helpers >= 2
    out.label(f"depth:{min(depth, 4)}")
    return out


def check_action_targets(out: Outcome, form, v: xform.XFormView):
    """a value-changed action belongs to the row that has the trigger cell: its ref is that row's node, whoever else shares the row's name"""
    if form.get("settings", {}).get("flat"):
        return
    from vf.ref import expect
    try:
        root = expect.build(form)
    except Exception:  # noqa: BLE001  (shapes the reference tree does not model: nothing to compare with)
        return
    want = sorted(n.path for n in root.walk() if n.src is not None and "trigger" in n.cells and n.kind == "q")
    got = sorted(e.get("ref") for e in v.body.iter() if isinstance(e.tag, str) and e.tag in ACTION_TAGS and e.get("event") == "xforms-value-changed")
    out.checked("C02.action-target")
    if want != got:
        out.fail("C02.action-target", "", f"value-changed actions target {got}, the rows with a trigger cell are {want}")


def check_refs(out: Outcome, v: xform.XFormView):
    inst = v.live_instance()
    root = v.root
    # (2) sibling names unique in the instance (template-free)
    out.checked("C02.sibling-unique")
    for e in inst.iter():
        if not isinstance(e.tag, str):
            continue
        names = [c.tag for c in xform.elems(e)]
        if len(names) != len(set(names)):
            dup = sorted({n for n in names if names.count(n) > 1})
            out.fail("C02.sibling-unique", "", f"{xform.node_path(e)} has duplicate children {dup}")
            break
    # (1) every nodeset / ref resolves to exactly one node
    seen_bind = {}
    seen_ctrl = {}
    for el in root.iter():
        if not isinstance(el.tag, str):
            continue
        tag = el.tag
        refs = []
        if tag == q(XF, "bind"):
            refs.append(("bind", el.get("nodeset")))
        elif tag == q(XF, "repeat"):
            refs.append(("repeat", el.get("nodeset")))
        elif tag in CONTROL_TAGS and tag != q(XF, "repeat"):
            if el.get("ref") is not None or tag != q(XF, "group"):
                refs.append(("control", el.get("ref")))
        elif tag in ACTION_TAGS:
            refs.append(("action", el.get("ref")))
        for kind, ref in refs:
            out.checked("C02.resolves")
            if ref is None:
                out.fail("C02.resolves", f"{kind}-missing-ref", f"{kind} <{xform.local(el)}> without ref/nodeset")
                continue
            if not ref.startswith("/"):
                out.fail("C02.resolves", f"{kind}-not-absolute", f"{kind} ref {ref!r} is not absolute")
                continue
            hits = xform.resolve(inst, ref)
            if len(hits) != 1:
                out.fail("C02.resolves", f"{kind}-{'none' if not hits else 'many'}", f"{kind} ref {ref!r} resolves to {len(hits)} nodes")
            if kind == "bind":
                out.checked("C02.bind-once")
                if ref in seen_bind:
                    out.fail("C02.bind-once", "", f"two binds for {ref}")
                seen_bind[ref] = el
            elif kind in ("control", "repeat"):
                out.checked("C02.control-once")
                prev = seen_ctrl.get(ref)
                if prev is not None:
                    # documented pair: group[ref=X] > repeat[nodeset=X]
                    ok = kind == "repeat" and prev.tag == q(XF, "group") and el.getparent() is prev
                    if not ok:
                        out.fail("C02.control-once", "", f"two body controls for {ref}: <{xform.local(prev)}> and <{xform.local(el)}>")
                seen_ctrl[ref] = el
    # (5) each repeat has exactly one template copy with the same descendant shape as the live copy
    check_templates(out, v, root, "C02.template")


def check_templates(out, v, root, clause):
    out.checked(clause)
    prim = v.primary
    for rep in v.body.iter(q(XF, "repeat")):   # body only: an instance node may be *named* repeat
        ns = rep.get("nodeset") or ""
        # all elements at that name path in the *full* instance (templates kept).  A top-level repeat has a
        # template copy and a live copy side by side; a nested repeat has its template copy inside the outer
        # template and its live copy inside the outer live copy.
        hits = _resolve_full(prim, ns)
        tmpl = [c for c in hits if c.get(q(JR, "template")) is not None]
        live = [c for c in hits if not _in_template(c)]
        # exactly one live copy and exactly one copy marked jr:template (inside the outer repeat's template for a nested
        # repeat, whether or not a group lies between them), and no third copy
        if len(tmpl) != 1 or len(live) != 1 or len(hits) != 2:
            out.fail(clause, "count", f"repeat {ns}: {len(hits)} copies, {len(tmpl)} marked jr:template, {len(live)} live")
        elif any(_shape(h) != _shape(live[0]) for h in hits):
            out.fail(clause, "shape", f"repeat {ns}: template and live copy differ in descendants")


def _in_template(e):
    while e is not None and isinstance(e.tag, str):
        if e.get(q(JR, "template")) is not None:
            return True
        e = e.getparent()
    return False


def _resolve_full(prim, path):
    parts = path.strip("/").split("/")
    if not parts or xform.local(prim) != parts[0]:
        return []
    cur = [prim]
    for p in parts[1:]:
        cur = [c for x in cur for c in xform.elems(x) if xform.local(c) == p]
    return cur


def _shape(e):
    """descendant names; nested repeats appear once (template inside template is the only copy)"""
    kids = []
    seen = set()
    for c in xform.elems(e):
        key = xform.local(c)
        if key in seen:
            continue
        seen.add(key)
        kids.append((key, _shape(c)))
    return tuple(kids)
