"""Warning parser (shared by C13 and C20) and the independent trigger model for C20."""

from __future__ import annotations

import re

from vf import model
from vf.ref import typetable as tt

ROW = r"^\[row : (\d+)\] ?"
PATTERNS = [
    ("unlabeled-group", re.compile(ROW + r"Group has no label: (.*)$", re.S)),
    ("unlabeled-repeat", re.compile(ROW + r"Repeat has no label: (.*)$", re.S)),
    ("choice-no-label", re.compile(ROW + r"On the 'choices' sheet, the 'label' value is invalid\. Choices should have a label")),
    ("choices-header", re.compile(r"^\[row : 1\] On the 'choices' sheet, the '(.*)' value is invalid\. Column headers must not be empty")),
    ("image-max-pixels", re.compile(ROW + r"Use the max-pixels parameter")),
    ("deprecated-meta", re.compile(ROW + r"(simserial|subscriberid) is no longer supported")),
    ("disabled-column", re.compile(ROW + r"The 'disabled' column header is not part")),
    ("comment-row", re.compile(ROW + r"Row without name, text, or label is being skipped")),
    ("external-unfiltered", re.compile(ROW + r"select one external is only meant for filtered selects")),
]
SPELL = re.compile(r"When looking for a sheet named '([^']*)', the following sheets with similar names were found: (.*?)\.( If you do not mean| Please ensure|$)", re.S)
MISSING = re.compile(r"^Language '(.*)' is missing the (survey|choices) (?:(\S+) column|columns (.*))\.$")
BADLANG = re.compile(r"^The following language declarations do not contain valid machine-readable codes: (.*)\. Learn more", re.S)


def parse(warnings):
    """list of warning strings -> sorted list of (kind, subject, row)"""
    out = []
    for w in warnings:
        done = False
        for kind, rx in PATTERNS:
            m = rx.search(w)
            if m:
                g = m.groups()
                if kind in ("unlabeled-group", "unlabeled-repeat"):
                    nm = re.search(r"'name': '([^']*)'", g[1])
                    out.append((kind, nm.group(1) if nm else g[1], int(g[0])))
                elif kind == "choices-header":
                    out.append((kind, g[0], 1))
                elif kind == "deprecated-meta":
                    out.append((kind, g[1], int(g[0])))
                else:
                    out.append((kind, None, int(g[0])))
                done = True
                break
        if done:
            continue
        if w.startswith("The form_id and id_string column headers are both"):
            out.append(("dup-id-headers", None, None))
        elif w.startswith("This form uses or_other and translations"):
            out.append(("or-other-translations", None, None))
        elif BADLANG.match(w):
            for lang in BADLANG.match(w).group(1).split(", "):
                out.append(("bad-language", lang, None))
        elif SPELL.search(w):
            m = SPELL.search(w)
            names = tuple(sorted(re.findall(r"'([^']*)'", m.group(2))))
            out.append(("sheet-misspelling", (m.group(1), names), None))
        elif w.startswith("Language '"):
            for line in w.split("\n"):
                m = MISSING.match(line)
                if not m:
                    out.append(("other", line, None))
                    continue
                cols = [m.group(3)] if m.group(3) else m.group(4).split(", ")
                for c in cols:
                    out.append(("missing-translation", (m.group(2), m.group(1), c), None))
        elif w.startswith("ODK Validate Warnings"):
            out.append(("odk-validate", None, None))
        else:
            out.append(("other", w[:80], None))
    return sorted(out, key=repr)


# ------------------------------------------------------------------ model


def levenshtein(a: str, b: str) -> int:
    """full-matrix edit distance (deliberately not pyxform's two-row version)"""
    m = [[0] * (len(b) + 1) for _ in range(len(a) + 1)]
    for i in range(len(a) + 1):
        m[i][0] = i
    for j in range(len(b) + 1):
        m[0][j] = j
    for i in range(1, len(a) + 1):
        for j in range(1, len(b) + 1):
            m[i][j] = min(m[i - 1][j] + 1, m[i][j - 1] + 1, m[i - 1][j - 1] + (a[i - 1] != b[j - 1]))
    return m[-1][-1]


SUPPORTED = {"survey", "choices", "settings", "external_choices", "osm", "entities"}
SURVEY_TRANSLATABLE = ("label", "hint", "guidance_hint", "image", "big-image", "audio", "video", "constraint_message", "required_message", "noAppErrorString")
CHOICES_TRANSLATABLE = ("label", "image", "big-image", "audio", "video")
# a fixed list of well-known registered subtags (independent of the registry files shipped with pyxform)
# (the IANA registry holds the shortest ISO 639 code only: 'en' is a subtag, 'eng' is not)
KNOWN_CODES = {"en", "fr", "es", "sw", "ar", "hi", "zh", "pt", "de", "ru", "am", "ne", "tpi", "ceb", "haw"}
NOT_CODES = {"xx", "zz", "english", "e n", "e", "123", "en-", "EN ", "eng", "fra", "swa", "spa", "ara"}


def similar_sheets(key, sheet_names):
    if any(k.strip().lower() == key for k in sheet_names):
        return ()       # sheet names are case-insensitive and read without the white space around them: the sheet is there, nothing is missing
    return tuple(sorted(k for k in sheet_names if levenshtein(k.lower(), key) <= 2 and k.lower() not in SUPPORTED and not k.startswith("_")))


def missing_translations(headers, translatable, sheet):
    seen = {}
    cols = []
    for h in headers:
        base, sep, lang = h.partition("::")
        lang = " ".join(lang.split())      # header tokens are cleaned: runs of white space (incl. non-breaking) are one space
        if base in translatable:
            seen.setdefault(lang if sep else "default", []).append(base)
            if base not in cols:
                cols.append(base)
    if not seen or set(seen) == {"default"}:
        return []
    out = []
    for lang, have in seen.items():
        for c in cols:
            if c not in have:
                out.append(("missing-translation", (sheet, lang, c), None))
    return out


def lang_is_bad(lang: str):
    """True: must be flagged; False: must not; None: not prescribed (odd cases)"""
    if lang == "default":
        return False
    m = re.search(r"\(([^()]*)\)$", lang)      # the last parenthesised part: "Chinese (Simplified) (zh)"
    if not m:
        return True if "(" not in lang and ")" not in lang else (True if not lang.endswith(")") else None)
    code = m.group(1)
    if code in KNOWN_CODES:
        return False
    if code in NOT_CODES or code == "":
        return True
    return None


def expected(form, sheet_names=None):
    """independent evaluation of every trigger on the source workbook -> (sorted tuples, set of unprescribed kinds/subjects)"""
    out = []
    sheets = model.to_sheets(form)
    names = list(sheet_names) if sheet_names is not None else [form.get("sheet_names", {}).get(n, n) for n in sheets] + list(form.get("extra_sheets", []))
    # sheet spelling (only for sheets whose absence is legal)
    for key in ("settings", "entities"):
        if not sheets.get(key, (None, []))[1]:
            sim = similar_sheets(key, names)
            if sim:
                out.append(("sheet-misspelling", (key, sim), None))
    s = form.get("settings", {})
    sh_head = {"_".join(h.split()).lower() for h in sheets.get("settings", ([], []))[0]}     # in any case / spacing
    if "form_id" in sh_head and "id_string" in sh_head:
        # the trigger is the pair of column headers, whichever of the two cells is filled in
        out.append(("dup-id-headers", None, None))
    shead, srows = sheets.get("survey", ([], []))
    out += missing_translations(shead, SURVEY_TRANSLATABLE, "survey")
    chead, crows = sheets.get("choices", ([], []))
    out += missing_translations(chead, CHOICES_TRANSLATABLE, "choices")
    multi_lang = any("::" in h and h.split("::")[0] in SURVEY_TRANSLATABLE for h in shead) or any("::" in h and h.split("::")[0] in CHOICES_TRANSLATABLE for h in chead)
    or_other = False
    # row-level triggers (row numbers: header = 1, blank rows count)
    for i, r in enumerate(srows, start=2):
        if "disabled" in r:
            out.append(("disabled-column", None, i))
            if r["disabled"] in ("yes", "Yes", "YES", "true", "True", "TRUE", "true()"):
                continue
        if not r:
            continue
        t = r.get("type")
        if not t:
            if "name" not in r and "label" not in r and not any(k.startswith("label::") for k in r):
                out.append(("comment-row", None, i))
            continue
        t = " ".join(t.split())
        base = t.split()[0] if t.split() else t
        if t in ("simserial", "subscriberid"):
            out.append(("deprecated-meta", t, i))
        if t in ("image", "photo"):
            prm = r.get("parameters", "")
            if "max-pixels" not in prm:
                out.append(("image-max-pixels", None, i))
        if t in ("begin group", "begin repeat", "begin_group", "begin_repeat"):
            labelled = any(k == "label" or k.startswith("label::") for k in r) or any(k.split("::")[0] in ("image", "audio", "video", "big-image") for k in r)
            fl = t.endswith("group") and r.get("appearance") == "field-list"
            if not labelled and not fl:
                out.append(("unlabeled-" + ("group" if t.endswith("group") else "repeat"), r.get("name"), i))
        if base in ("select_one", "select_multiple") and t.endswith(("or_other", "or other", "or specify other")):
            or_other = True
        if base == "select_one_external" and "choice_filter" not in r:
            out.append(("external-unfiltered", None, i))
    if or_other and multi_lang:
        out.append(("or-other-translations", None, None))
    for i, r in enumerate(crows, start=2):
        if r and "name" in r and not any(k == "label" or k.startswith("label::") for k in r):
            out.append(("choice-no-label", None, i))
    for h in chead:
        base = h.split("::")[0]
        if h not in ("list name", "list_name") and (" " in base or base == ""):
            out.append(("choices-header", base, 1))
    return sorted(out, key=repr)
