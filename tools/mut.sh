#!/bin/sh
# usage: tools/mut.sh <patch-file|--revert COMMIT> <check-id> [extra check args]
# Applies a patch to a scratch worktree of /repo (never /repo itself), runs one check against it, removes the worktree.
set -e
P="$1"; shift
if [ "$P" = "--revert" ]; then REV="$1"; shift; fi
ID="$1"; shift
WT=$(mktemp -d /tmp/mut_XXXXXX)
git -C /repo worktree add -q --detach "$WT" HEAD
cleanup() { git -C /repo worktree remove --force "$WT" 2>/dev/null; rm -rf "$WT"; }
trap cleanup EXIT
if [ -n "$REV" ]; then (cd "$WT" && git revert -n "$REV" >/dev/null); else (cd "$WT" && (git apply "$P" 2>/dev/null || git apply -3 "$P")); fi
cd /verif
set +e
VERIF_REPO="$WT" ./check "$ID" "$@"
echo "exit=$?"
