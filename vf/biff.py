import struct, io
def rec(op, data=b""): return struct.pack("<HH", op, len(data)) + data
def ustr(s, lenlen=2):
    # BIFF8 unicode string, uncompressed UTF-16LE (flag 1)
    b = s.encode("utf-16-le")
    n = len(b)//2
    return struct.pack("<H" if lenlen==2 else "<B", n) + b"\x01" + b
def bof(kind): return rec(0x0809, struct.pack("<HHHHII", 0x0600, kind, 0x0DBB, 0x07CC, 0, 6))
def xf(fmt): # 20 bytes BIFF8 XF: font, fmt, flags...
    return rec(0x00E0, struct.pack("<HHHBBBBIIH", 0, fmt, 0x0001, 0x20, 0, 0, 0, 0, 0, 0x20C0))
def rk_of(v):
    """RK encoding of a number, or None when it needs a full NUMBER record"""
    f = float(v)
    if f == int(f) and abs(f) < 2**29:
        return ((int(f) << 2) | 2) & 0xFFFFFFFF
    h = f * 100
    if h == int(h) and abs(h) < 2**29 and int(h) / 100 == f:
        return ((int(h) << 2) | 3) & 0xFFFFFFFF
    bits = struct.unpack("<Q", struct.pack("<d", f))[0]
    if bits & 0x3FFFFFFFF == 0:
        return (bits >> 32) & 0xFFFFFFFC
    return None
def sheet_stream(rows, variant=0, sst=None):
    """variant 0: LABEL + NUMBER; 1: LABELSST + RK; 2: LABELSST + RK/MULRK + BLANK for some empty cells"""
    out = [bof(0x0010)]
    nr = len(rows); nc = max((len(r) for r in rows), default=0)
    out.append(rec(0x0200, struct.pack("<IIHHH", 0, nr, 0, nc, 0)))
    for r, row in enumerate(rows):
        c = 0
        while c < len(row):
            v = row[c]
            if v is None:
                if variant == 2 and (r + c) % 7 == 0:
                    out.append(rec(0x0201, struct.pack("<HHH", r, c, 0)))
                c += 1; continue
            if isinstance(v, bool):
                out.append(rec(0x0205, struct.pack("<HHHBB", r, c, 0, int(v), 0)))
            elif isinstance(v, (int, float)):
                rk = rk_of(v) if variant else None
                if rk is None:
                    out.append(rec(0x0203, struct.pack("<HHHd", r, c, 0, float(v))))
                else:
                    run = [rk]
                    if variant == 2:
                        j = c + 1
                        while j < len(row) and isinstance(row[j], (int, float)) and not isinstance(row[j], bool) and rk_of(row[j]) is not None:
                            run.append(rk_of(row[j])); j += 1
                    if len(run) > 1:
                        out.append(rec(0x00BD, struct.pack("<HH", r, c) + b"".join(struct.pack("<HI", 0, k) for k in run) + struct.pack("<H", c + len(run) - 1)))
                        c += len(run); continue
                    out.append(rec(0x027E, struct.pack("<HHHI", r, c, 0, rk)))
            elif isinstance(v, tuple) and v[0]=="date":
                out.append(rec(0x0203, struct.pack("<HHHd", r, c, 1, float(v[1]))))
            else:
                idx = sst.index_of(v) if (variant and sst is not None) else None
                if idx is not None:
                    out.append(rec(0x00FD, struct.pack("<HHHI", r, c, 0, idx)))
                else:
                    data = struct.pack("<HHH", r, c, 0) + ustr(v)
                    assert len(data) <= 8224
                    out.append(rec(0x0204, data))
            c += 1
    out.append(rec(0x000A))
    return b"".join(out)
class SST:
    """shared string table kept within one record (no CONTINUE): strings beyond the budget fall back to LABEL"""
    def __init__(self, budget=8000):
        self.idx = {}; self.blobs = []; self.size = 8; self.budget = budget; self.total = 0
    def index_of(self, s):
        if s in self.idx:
            self.total += 1
            return self.idx[s]
        b = ustr(s)
        if self.size + len(b) > self.budget:
            return None
        self.idx[s] = len(self.blobs); self.blobs.append(b); self.size += len(b); self.total += 1
        return self.idx[s]
    def record(self):
        return rec(0x00FC, struct.pack("<II", self.total, len(self.blobs)) + b"".join(self.blobs))
def workbook(sheets, variant=0):
    # sheets: list of (name, rows)
    glob_head = [bof(0x0005), rec(0x0042, struct.pack("<H", 1200)), rec(0x0022, struct.pack("<H", 0))]
    glob_head += [xf(0), xf(14)]
    sst = SST() if variant else None
    streams = [sheet_stream(rows, variant, sst) for _, rows in sheets]
    tail = [sst.record()] if sst is not None else []
    tail.append(rec(0x000A))
    # compute boundsheet sizes
    def bs(name, off): return rec(0x0085, struct.pack("<IBB", off, 0, 0) + ustr(name, lenlen=1))
    head_len = sum(len(x) for x in glob_head) + sum(len(bs(n,0)) for n,_ in sheets) + sum(len(x) for x in tail)
    offs=[]; pos=head_len
    for s in streams: offs.append(pos); pos+=len(s)
    return b"".join(glob_head) + b"".join(bs(n,o) for (n,_),o in zip(sheets,offs)) + b"".join(tail) + b"".join(streams)

def ole2(stream: bytes) -> bytes:
    # minimal compound file v3, 512-byte sectors, stream >= 4096 so no ministream
    if len(stream) < 4096: stream = stream + b"\x00"*(4096-len(stream))
    if len(stream) % 512: stream += b"\x00"*(512 - len(stream)%512)
    nsec = len(stream)//512
    # layout: sector0.. = FAT sectors, then directory(1), then stream
    import math
    nfat = 1
    while True:
        total = nfat + 1 + nsec
        if math.ceil(total/128) <= nfat: break
        nfat += 1
    assert nfat <= 109
    fat = []
    for i in range(nfat): fat.append(0xFFFFFFFD)
    dir_sec = nfat
    fat.append(0xFFFFFFFE)
    first = nfat+1
    for i in range(nsec): fat.append(first+i+1 if i < nsec-1 else 0xFFFFFFFE)
    while len(fat) < nfat*128: fat.append(0xFFFFFFFF)
    hdr = b"\xD0\xCF\x11\xE0\xA1\xB1\x1A\xE1" + b"\x00"*16 + struct.pack("<HHHHH", 0x003E, 0x0003, 0xFFFE, 9, 6) + b"\x00"*6
    hdr += struct.pack("<IIIIIIIII", 0, nfat, dir_sec, 0, 4096, 0xFFFFFFFE, 0, 0xFFFFFFFE, 0)
    difat = list(range(nfat)) + [0xFFFFFFFF]*(109-nfat)
    hdr += struct.pack("<109I", *difat)
    assert len(hdr)==512
    def dirent(name, typ, left, right, child, start, size):
        nb = (name+"\x00").encode("utf-16-le")
        e = nb + b"\x00"*(64-len(nb)) + struct.pack("<HBBIII", len(nb), typ, 1, left, right, child)
        e += b"\x00"*16 + struct.pack("<I", 0) + b"\x00"*16 + struct.pack("<IQ", start, size)
        assert len(e)==128, len(e)
        return e
    NO=0xFFFFFFFF
    d = dirent("Root Entry",5,NO,NO,1,0xFFFFFFFE,0) + dirent("Workbook",2,NO,NO,NO,first,len(stream))
    d += (b"\x00"*64 + struct.pack("<HBBIII",0,0,0,NO,NO,NO)+b"\x00"*(128-64-16))*2
    assert len(d)==512, len(d)
    return hdr + struct.pack(f"<{len(fat)}I", *fat) + d + stream

if __name__=="__main__":
    import xlrd
    wb = workbook([("survey",[["type","name","label::Français (fr)","default","required"],["text","a","Héllo 😀 <&>",5.0,True],["integer","b","B",0.25,None],[None,None,None,None,None],["date","d","D",("date",43831.0),False]]),("Settings",[["form_id"],["x"*300]])])
    for blob in (wb, ole2(wb)):
        b = xlrd.open_workbook(file_contents=blob)
        for s in b.sheets():
            print(s.name, s.nrows, s.ncols)
            for r in range(s.nrows): print([ (c.ctype, c.value if not isinstance(c.value,str) or len(c.value)<30 else c.value[:5]+"...") for c in s.row(r)])
    open("/tmp/exp/t.xls","wb").write(ole2(wb))
    from pyxform.xls2json_backends import xls_to_dict
    print(xls_to_dict("/tmp/exp/t.xls"))
