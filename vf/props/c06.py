"""C06 -- user text is data, never markup."""

from __future__ import annotations

import re

from hypothesis import strategies as st

from vf import common, gen, model, xform
from vf.props import c08
from vf.ref import expect, refs
from vf.ref import typetable as tt
from vf.runner import Outcome, crash_sig
from vf.xform import XF, q

ID = "C06"
LEVEL = "exploration"
RULE = ("Hypothesis-generated small forms (text profile) in which every text-bearing channel is filled from an adversarial alphabet "
        "(< > & quotes ]]> <!-- entities CDATA braces $ % backslash, astral/RTL/combining/NBSP/ZWJ, leading/trailing/double spaces, "
        "tab/newline): label, hint, guidance, constraint/required message (inline, translated, with ${ref}), choice label, extra choice "
        "column, static default, form_title, version, appearance, bind::/instance::/body::/attribute:: values, style; 0-3 languages. "
        "Two oracles: round trip per channel, and skeleton invariance against the same form with every text replaced by 'x'. "
        "non-trivial = a checked cell contains an XML metacharacter, an entity/CDATA/comment fragment or a non-BMP character; "
        "distinct by SHA-1 of the case JSON")
ASSUMPTIONS = ["documented normalisations only: survey cells stripped + space runs collapsed + smart quotes straightened; attribute-carried "
               "text exactly (TAB/LF/CR included); mixed text+output may gain one boundary space",
               "static-default channel alphabet omits the characters that make a default an expression (C10 owns those)"]
BUDGET = {"quick": 12000, "thorough": 400000}
REQUIRED_LABELS = ["channel:label", "channel:hint", "channel:guidance", "channel:jr:constraintMsg", "channel:jr:requiredMsg", "channel:choice-label",
                   "channel:choice-extra", "channel:default", "channel:title", "channel:version", "channel:appearance", "channel:bind::",
                   "channel:instance::", "channel:body::", "channel:attribute::", "channel:style"]

DYN_EXPR = re.compile(r"instance\('[^']*'\)/root/item\[name = 'c1'\]/label")
SPECIAL = re.compile(r"[<>&\"']|\]\]>|<!--|&\w+;|&#|[\U00010000-\U0010ffff]")
DEFAULT_SAFE = [a for a in gen.ADV_ATOMS if not any(ch in a for ch in "-+*|()[]{}/") and a not in ("\t", "\n")] + ["safe", "word"]
TEXT_COLS = ("label", "hint", "guidance_hint", "constraint_message", "required_message")


@st.composite
def _cases(draw):
    prof = dict(gen.PROFILES["text"], p_multilang=0.5, p_custom_bind=0.4, p_custom_instance=0.4, p_custom_body=0.4, p_appearance=0.0,
                p_default=0.0, p_entities=0, p_external=0, p_choice_label_ref=0.15, p_or_other=0.05, p_table_list=0.05, p_search=0.1)
    g = gen.G(draw, prof)
    if g.p("_", 0.05):
        # the legacy loop: one copy of the questions per choice, %(label)s / %(name)s in their texts replaced by the choice's label / name.
        # The label is data there too, whatever characters it has.
        labels = [" ".join((g.adv(allow_ws_ctl=False) + g.pick(["", "", " C:\\temp\\new", " AC\\DC", " \\1", " 100%", " %(x)s", " \\g<0>"])).split()) for _ in range(g.integer(1, 3))]
        return {"loop": {"labels": labels, "tmpl": g.pick(["Free in %(label)s? 100% %(name)s", "%(label)s", "a %(label)s b %(label)s", "%(name)s: %(label)s %"]),
                         "hint": g.pick([None, "h %(label)s"])}}
    form = gen.build_form(draw, prof, g=g)
    for n, _ in model.walk(form["nodes"]):
        if n["k"] != "q":
            continue
        base = n["c"]["type"].split()[0]
        if base in ("text", "note", "barcode", "hidden") and "trigger" not in n["c"] and g.p("_", 0.4):
            n["c"]["default"] = g.adv(DEFAULT_SAFE, allow_ws_ctl=False)
        if base in ("text", "integer", "select_one", "date", "note") and "appearance" not in n["c"] and g.p("_", 0.4):
            n["c"]["appearance"] = g.adv(allow_ws_ctl=False)
    s = form.setdefault("settings", {})
    if g.p("_", 0.6):
        s["style"] = g.adv()
    if g.p("_", 0.7):
        s["attribute::plain"] = g.adv()
    if g.p("_", 0.7):
        s["version"] = g.adv()
    if form.get("lists") and g.p("_", 0.1):
        # the bare words "instance(" and, later in the same cell, a real instance('list') expression (documented dynamic label)
        ln = form["lists"][0]["name"]
        qs_ = [n for n, _ in model.walk(form["nodes"]) if n["k"] == "q" and "label" in n["c"] and "calculation" not in n["c"] and "trigger" not in n["c"]
               and "${" not in n["c"]["label"]]
        for n in qs_[: g.integer(1, 2)]:
            n["c"]["label"] = g.pick(["see instance( and ", "instance( then ", "A instance( B "]) + f"instance('{ln}')/root/item[name = 'c1']/label" + g.pick(["", " end", " instance( again"])
    if g.p("_", 0.06):
        # documented switch: cells are taken as typed -- no trimming, no quote straightening, and "${" that is not a reference is text
        s["clean_text_values"] = g.pick(["no", "false"])
        for n, _ in model.walk(form["nodes"]):
            for k in list(n["c"]):
                if k.split("::")[0] in ("constraint_message", "required_message", "hint") and "${" not in n["c"][k] and g.p("_", 0.5):
                    n["c"][k] = n["c"][k] + g.pick([" ${ 5", " a ${b", "{${", " $ {x}"])
    return {"form": form}


def strategy(tier):
    return _cases()


def benign(form):
    """same form with every text replaced by 'x' (references kept in place)"""
    f = model.clone(form)

    def blank(s):
        m = DYN_EXPR.search(s)
        if m:
            # a complete instance expression is structure (it becomes an <output/>), like a reference: keep it
            return "x " + m.group(0) + " x"
        lits, rr = refs.split_source(s)
        out = []
        for i, lit in enumerate(lits):
            if lit.strip():
                out.append("x")
            if i < len(rr):
                out.append("${%s%s}" % ("last-saved#" if rr[i][0] else "", rr[i][1]))
        return " ".join(out) if out else "x"

    for n, _ in model.walk(f["nodes"]):
        for k in list(n["c"]):
            base = k.split("::")[0]
            if base in TEXT_COLS or (base in ("bind", "instance", "body") and "${" not in n["c"][k]) or base in ("appearance",):
                if base == "appearance" and ("table-list" in n["c"][k] or "search(" in n["c"][k]):     # (these appearances are structure)
                    continue
                n["c"][k] = blank(n["c"][k])
            elif base == "default" and expect.is_dynamic_default(n["c"][k], n["c"].get("type", "").split()[0] if n["k"] == "q" else None) is False:
                n["c"][k] = "x"
    for lst in f.get("lists", []):
        for r in lst["rows"]:
            for k in list(r):
                if k.split("::")[0] == "label" or k.startswith("e"):
                    r[k] = blank(r[k])
    for k in list(f.get("settings", {})):
        if k in ("form_title", "version", "style") or k.startswith("attribute::"):
            f["settings"][k] = "x"
    return f


def attr_norm(s):
    """attribute-carried text must come back as typed: a writer has to use character references for TAB/LF/CR"""
    return s


def evaluate_loop(case) -> Outcome:
    out = Outcome()
    lp = case["loop"]
    out.label("loop")
    q_ = {"type": "text", "name": "q", "label": lp["tmpl"]}
    if lp.get("hint"):
        q_["hint"] = lp["hint"]

    def wb(labels):
        return {"survey": [{"type": "begin loop over l", "name": "lp", "label": "Loop"}, q_, {"type": "end loop"}],
                "choices": [{"list_name": "l", "name": f"c{i}", "label": lab} for i, lab in enumerate(labels)]}
    status, res = common.run_workbook(wb(lp["labels"]))
    if status == "crash":
        out.label("outcome:crash:" + crash_sig(res))
        return out
    if status == "rejected":
        out.label("outcome:rejected:" + common.err_class(res))
        if not any(common.XML_ILLEGAL_RE.search(x) for x in lp["labels"]):
            s2, _ = common.run_workbook(wb(["x"] * len(lp["labels"])))
            out.checked("C06.accepts-any-text")
            if s2 == "ok":
                out.fail("C06.accepts-any-text", "loop:" + common.err_class(res)[:40], f"refused because of a choice label (the same loop with benign labels converts): {res}")
        return out
    try:
        v = xform.XFormView(res.xform)
    except xform.IllFormed as e:
        out.checked("C06.markup")
        out.fail("C06.markup", "ill-formed", f"user text broke the document: {e}")
        return out
    out.nontrivial = True
    for i, lab in enumerate(lp["labels"]):
        want_lab = common.smart(lab)
        for el in v.body.iter():
            if isinstance(el.tag, str) and el.get("ref") == f"/data/lp/c{i}/q":
                for tag, tmpl in (("label", lp["tmpl"]), ("hint", lp.get("hint"))):
                    if tmpl is None:
                        continue
                    out.checked("C06.roundtrip")
                    got = [ch for ch in xform.elems(el) if xform.local(ch) == tag]
                    txt = "".join(got[0].itertext()) if got else None
                    want = common.smart(tmpl).replace("%(label)s", want_lab).replace("%(name)s", f"c{i}")
                    if txt != want:
                        out.fail("C06.roundtrip", "loop:" + tag, f"looped {tag} for the choice labelled {lab!r}: {txt!r}, expected {want!r}")
                break
        else:
            out.checked("C06.roundtrip")
            out.fail("C06.roundtrip", "loop:missing-copy", f"no copy of the looped question for choice c{i}")
    return out


def evaluate(case) -> Outcome:
    if "loop" in case:
        return evaluate_loop(case)
    raw_mode = case["form"].get("settings", {}).get("clean_text_values") in expect.NO
    common.CLEAN[0] = not raw_mode
    try:
        out = _evaluate(case)
    finally:
        common.CLEAN[0] = True
    if raw_mode:
        out.label("clean_text_values=no")
    return out


def _evaluate(case) -> Outcome:
    out = Outcome()
    form = case["form"]
    status, res = common.run_form(form)
    if status == "crash":
        out.label("outcome:crash:" + crash_sig(res))
        return out
    if status == "rejected":
        out.label("outcome:rejected:" + common.err_class(res))
        # text is data: a form may not be refused because of the characters of its texts (other than those XML cannot carry at all)
        if common.CLEAN[0] and not any(common.XML_ILLEGAL_RE.search(x) for x in common.all_strings(form)):
            s2, _ = common.run_form(benign(form))
            out.checked("C06.accepts-any-text")
            if s2 == "ok":
                out.fail("C06.accepts-any-text", common.err_class(res)[:40], f"refused because of its text (the same form with benign text converts): {res}")
        return out
    out.label("outcome:accepted")
    try:
        v = xform.XFormView(res.xform)
    except xform.IllFormed as e:
        out.checked("C06.markup")
        out.fail("C06.markup", "ill-formed", f"user text broke the document: {e}")
        return out
    if v.primary is None or v.body is None:
        return out
    special = False
    # (1a) translatable channels: reuse the per-language text model
    sub = Outcome()
    c08.check(sub, form, v)
    out.checked("C06.roundtrip", sum(sub.clauses.values()))
    for vio in sub.violations:
        out.fail("C06.roundtrip", vio.sig.replace("C08.", ""), vio.msg)
    root = expect.build(form)
    inst = v.live_instance()
    bm = v.bind_map()
    controls = {}
    for el in v.body.iter():
        if isinstance(el.tag, str) and el.get("ref") and xform.local(el) in ("input", "select", "select1", "upload", "trigger", "range", "rank", "group"):
            controls.setdefault(el.get("ref"), el)
    for n in root.walk():
        if n.kind == "root":
            continue
        c = n.cells
        for k, raw in c.items():
            base = k.split("::")[0]
            if base in TEXT_COLS:
                out.label("channel:" + {"label": "label", "hint": "hint", "guidance_hint": "guidance", "constraint_message": "jr:constraintMsg", "required_message": "jr:requiredMsg"}[base])
                special = special or bool(SPECIAL.search(raw))
        if n.src is None:
            continue
        el = xform.resolve(inst, n.path)
        el = el[0] if len(el) == 1 else None
        ctrl = controls.get(n.path)
        b = bm.get(n.path, [None])[0]
        for k, raw in c.items():
            base = k.split("::")[0]
            val = common.survey_clean(raw)
            tgt = None
            if base == "default" and n.kind == "q" and expect.is_dynamic_default(val, tt.parse_type(n.type)[0]) is False:
                out.label("channel:default")
                out.checked("C06.roundtrip")
                got = (el.text or "") if el is not None else None
                if got != val:
                    out.fail("C06.roundtrip", "default", f"{n.path} default: {got!r}, expected {val!r}")
                special = special or bool(SPECIAL.search(raw))
                continue
            if base == "appearance" and ctrl is not None and "table-list" not in val and n.helper != "in-table-list":
                tgt = ("appearance", xform.attrs(ctrl if n.kind != "r" else next(iter(ctrl.iter(q(XF, "repeat"))), ctrl)).get("appearance"))
            elif base == "bind" and b is not None:
                tgt = ("bind::", xform.attrs(b).get(k[6:]))
            elif base == "instance" and el is not None:
                tgt = ("instance::", xform.attrs(el).get(k[10:]))
            elif base == "body" and ctrl is not None and n.kind == "q":
                tgt = ("body::", xform.attrs(ctrl).get(k[6:]))
            if tgt is None:
                continue
            out.label("channel:" + tgt[0])
            out.checked("C06.roundtrip")
            special = special or bool(SPECIAL.search(raw))
            want = attr_norm(val)
            if "${" in val:
                if tgt[1] is None or refs.match_substituted(want, tgt[1]) is None:
                    out.fail("C06.roundtrip", tgt[0], f"{n.path} {k}: {tgt[1]!r} is not {want!r} substituted")
            elif tgt[1] != want:
                out.fail("C06.roundtrip", tgt[0], f"{n.path} {k}: {tgt[1]!r}, expected {want!r}")
    # choices: labels are covered by the text model; extra columns here
    sec = v.secondary()
    for lst in form.get("lists", []):
        el = sec.get(lst["name"])
        for r in lst["rows"]:
            if any(k.split("::")[0] == "label" for k in r):
                out.label("channel:choice-label")
                special = special or any(SPECIAL.search(val) for k, val in r.items() if k.split("::")[0] == "label")
        if el is None:
            continue
        items = list(el.iter(q(XF, "item")))
        for it, r in zip(items, lst["rows"]):
            for k, raw in r.items():
                if k.startswith("e"):
                    out.label("channel:choice-extra")
                    out.checked("C06.roundtrip")
                    special = special or bool(SPECIAL.search(raw))
                    got = next((ch.text or "" for ch in xform.elems(it) if xform.local(ch) == k), None)
                    if got != common.smart(raw):
                        out.fail("C06.roundtrip", "choice-extra", f"list {lst['name']} column {k}: {got!r}, expected {common.smart(raw)!r}")
    s = form.get("settings", {})
    pa = xform.attrs(v.primary)
    for key, got, lab in (("form_title", v.title.text if v.title is not None else None, "title"), ("version", pa.get("version"), "version"),
                          ("style", v.body.get("class"), "style"), ("attribute::plain", pa.get("plain"), "attribute::")):
        if key in s:
            out.label("channel:" + lab)
            out.checked("C06.roundtrip")
            special = special or bool(SPECIAL.search(s[key]))
            want = s[key] if key == "form_title" else attr_norm(s[key])
            if got is None or common.smart_always(got) != common.smart_always(want):
                out.fail("C06.roundtrip", lab, f"setting {key}: {got!r}, expected {want!r}")
    # (2) skeleton invariance
    s2, r2 = common.run_form(benign(form))
    out.checked("C06.skeleton")
    if s2 != "ok":
        out.fail("C06.skeleton", "benign-rejected", f"the same form with benign text is {s2}: {r2}")
    else:
        try:
            k1, k2 = xform.skeleton(v.root), xform.skeleton(xform.parse(r2.xform))
            if k1 != k2:
                out.fail("C06.skeleton", "differs", "element/attribute-name tree differs from the benign-text form: " + _skel_diff(k1, k2))
        except xform.IllFormed as e:
            out.fail("C06.skeleton", "benign-illformed", str(e))
    out.nontrivial = special
    return out


def _skel_diff(a, b, path=""):
    if a[0] != b[0]:
        return f"{path}: {a[0]} vs {b[0]}"
    here = path + "/" + a[0].split("}")[-1]
    if a[1] != b[1]:
        return f"{here}: attributes {sorted(set(a[1]) ^ set(b[1]))}"
    if len(a[2]) != len(b[2]):
        return f"{here}: children {[c[0].split('}')[-1] for c in a[2]]} vs {[c[0].split('}')[-1] for c in b[2]]}"
    for x, y in zip(a[2], b[2]):
        d = _skel_diff(x, y, here)
        if d:
            return d
    return ""
