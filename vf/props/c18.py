"""C18 -- validator verdicts are honoured and failures leave no residue.

The harness owns the fault: a scripted stand-in for the `java` executable is placed first on PATH (or PATH holds no java at all, or the
real java meets the corrupt jar), TMPDIR is private, and the CLI runs as a subprocess of the working tree's xls2xform.py.
"""

from __future__ import annotations

import io
import json
import os
import re
import shutil
import stat
import subprocess
import sys
import tempfile

from hypothesis import strategies as st

from vf import gen, model, render
from vf.runner import Outcome, crash_sig

ID = "C18"
LEVEL = "fault_enumeration"
RULE = ("Enumerated product: validator outcome {exit 0 silent, exit 0 with stderr, exit n>0 with stderr, killed by signal, java absent from "
        "PATH, real java with the corrupt (0-byte) jar; thorough adds a validator that outlives the 100 s watchdog} x entry {library "
        "convert(validate=True), CLI default, CLI --json, CLI --skip_validate, CLI --odk_validate} x form {valid, valid with pyxform "
        "warnings, valid with external choices, invalid} x output file {absent, pre-existing sentinel} (x --pretty_print in thorough); plus "
        "Hypothesis-generated cases: stderr texts from a line grammar (plain lines, instance paths, paths that must stay, exception "
        "prefixes, Java stack lines, adjacent duplicates, non-ASCII) x generated forms (md or xlsx file) x random cells of the product. "
        "Non-trivial = the validator stand-in was actually started, or the outcome is a fault (java absent / corrupt jar / invalid form); "
        "distinct by SHA-1 of the case JSON")
ASSUMPTIONS = ["the java executable is a scripted stand-in (sh) that reads its behaviour from a scenario directory; 'corrupt jar' uses the real java and the 0-byte jar shipped in this sandbox",
               "Enketo validation is not exercised (no binary)",
               "crash points inside the Python process itself (SIGKILL of pyxform mid-call) are not enumerated: the statement's outcomes are validator outcomes"]
BUDGET = {"quick": 420, "thorough": 20000}
EXHAUSTIVE = {"quick": True, "thorough": True}
EXHAUSTIVE_NOTE = ("the outcome x entry x form x pre-existing-output product is run completely with one fixed stderr text per outcome "
                   "(quick: 6x5x4x2 = 240 cells; thorough: x2 pretty flags + watchdog cells); stderr texts and forms beyond the fixed ones are sampled")

REPO = os.environ.get("VERIF_REPO", "/repo")
PY = "/venv/bin/python"
OUTCOMES = ["ok-silent", "ok-stderr", "reject", "killed", "java-absent", "corrupt-jar"]
ENTRIES = ["lib", "cli", "cli-json", "cli-skip", "cli-odk"]
FORMS = ["valid", "warn", "ext", "invalid"]
REQUIRED_LABELS = [f"outcome:{o}" for o in OUTCOMES] + [f"entry:{e}" for e in ENTRIES + ["lib-seq"]] + ["seq:same-form-again", "seq:verdict-flips-on-same-form", "line:non-adjacent-repeat", "line:long-stack", "line:many-findings"] + [f"form:{f}" for f in FORMS + ["generated"]] + \
    ["line:path", "line:kept-path", "line:prefix", "line:stack", "line:dup", "line:non-utf8", "validator-started", "verdict:accept", "verdict:reject"]

REAL_JAVA = shutil.which("java")
LINE_LABEL = {"l": "line:plain", "p": "line:path", "k": "line:kept-path", "m": "line:kept-path", "x": "line:prefix", "s": "line:stack", "d": "line:dup",
              "b": "line:non-utf8", "S": "line:long-stack", "P": "line:many-findings"}

FIXTURES = {
    "valid": {"nodes": [{"k": "q", "c": {"type": "text", "name": "q1", "label": "Q1"}},
                        {"k": "g", "c": {"name": "g", "label": "G"}, "ch": [{"k": "q", "c": {"type": "integer", "name": "age", "label": "Age"}}]}]},
    "warn": {"nodes": [{"k": "q", "c": {"type": "image", "name": "pic", "label": "Pic"}},
                       {"k": "r", "c": {"name": "rr"}, "ch": [{"k": "q", "c": {"type": "text", "name": "t", "label": "T"}}]}]},
    "ext": {"nodes": [{"k": "q", "c": {"type": "text", "name": "state", "label": "State"}},
                      {"k": "q", "c": {"type": "select_one_external cities", "name": "city", "label": "City", "choice_filter": "state=${state}"}}],
            "ext": [{"list_name": "cities", "name": "a", "label": "A", "state": "x"}, {"list_name": "cities", "name": "b", "state": "y"}]},
    "invalid": {"nodes": [{"k": "q", "c": {"type": "text", "name": "q1", "label": "see ${nosuch}"}}]},
}
FIXED_STDERR = [["p", "Error: could not evaluate ", "/data/g/age", ""], ["p", "Invalid calculate for the bind attached to \"", "/data/hh.size", "\" : bad"], ["p", "Error evaluating field 'dbl' (", "/data/member[1]/dbl[1]", ")"],
                ["p", "Invalid constraint for the bind attached to \"", "/data/item/value", "\""], ["s", "\t... 3 more"], ["x", "Caused by: org.javarosa.xpath.XPathUnhandledException: ", "cannot handle function 'foo'"], ["p", "deep ", "/data/g1/g2/g3/g4/g5/deep_q", " is cyclic"], ["l", "Something about the form"], ["p", "Problem near ", "/data/g/age", " here"], ["k", "Dependency cycle at ", "/html/body/input", "."],
                ["x", "java.lang.RuntimeException: ", "wrapped message"], ["s", "\tat org.javarosa.core.Model.run(Model.java:12)"],
                ["d", "duplicated line"], ["l", "Résultat: Invalid XPath"]]


# ------------------------------------------------------------------ stderr grammar

WORDS = ["Error", "evaluating", "field", "XPath", "expression", "cycle", "binding", "relevant", "calculate", "problem", "at", "line",
         "Résumé", "form", "instance", "null", "expected", ">>>", "(bad)", "100%", "type mismatch:"]
SEGS = ["data", "g", "grp_1", "age", "my-field", "q1", "meta", "instanceID", "Repeat9", "x_y", "hh.size", "prénom", "v1.2", "Ünï", "item", "value", "k.9-z", "नाम", "สกุล", "prénom", "item_count", "body_parts", "esri:x", "odk:len"]
POSITION = re.compile(r"\[\d+\]$")
GRAMMAR_PATH = re.compile(r"^(/[^/\s\[\]]+(\[\d+\])?){2,}$")


def render_lines(lines):
    """grammar lines -> (raw stderr text, expected cleaned lines).  A 'b' line carries bytes that are not UTF-8: the whole stream is then
    read as latin-1 (the documented fallback of decode_stream), which the expectation mirrors line by line."""
    raw, exp = [], []
    non_utf8 = any(ln[0] == "b" for ln in lines)
    for ln in lines:
        kind = ln[0]
        if kind == "b":
            raw.append(bytes.fromhex(ln[1]))
            exp.append(bytes.fromhex(ln[1]).decode("latin-1"))
            continue
        if kind == "l":
            raw.append(ln[1])
            exp.append(ln[1])
        elif kind == "p" and not GRAMMAR_PATH.match(ln[2]):
            # (a shrunk case may leave the grammar: a text that is no path of two or more steps is just text)
            raw.append(ln[1] + ln[2] + ln[3])
            exp.append(ln[1] + ln[2] + ln[3])
        elif kind == "p":      # instance path -> ${last segment}
            raw.append(ln[1] + ln[2] + ln[3])
            exp.append(ln[1] + "${%s}" % POSITION.sub("", ln[2].rsplit("/", 1)[1]) + ln[3])
        elif kind == "m":      # raw text and its expected cleaning, both spelled out
            raw.append(ln[1])
            exp.append(ln[2])
        elif kind == "k":      # paths that must stay
            raw.append(ln[1] + ln[2] + ln[3])
            exp.append(ln[1] + ln[2] + ln[3])
        elif kind == "x":      # exception class prefix is stripped
            raw.append(ln[1] + ln[2])
            exp.append(ln[2])
        elif kind == "s":      # java stack line: dropped
            raw.append(ln[1])
        elif kind == "d":      # adjacent duplicate: collapsed
            raw.extend([ln[1], ln[1]])
            exp.append(ln[1])
        elif kind == "S":      # a long run of Java stack frames (a deep recursion): all dropped, whatever the volume
            raw.extend("\tat org.javarosa.xpath.expr.XPathFuncExpr.eval(XPathFuncExpr.java:%d)" % (i % 997 + 1) for i in range(ln[1]))
        elif kind == "P":      # a long run of findings, each with an instance path: all kept and tokenised, whatever the volume
            for i in range(ln[1]):
                raw.append("%s %d: problem at /data/grp_1/%s%d here" % (ln[2], i, ln[3], i))
                exp.append("%s %d: problem at ${%s%d} here" % (ln[2], i, ln[3], i))
    data = b"\n".join(x if isinstance(x, bytes) else x.encode("utf-8") for x in raw) + b"\n"
    if non_utf8:
        exp = [e if any(isinstance(r_, bytes) and r_.decode("latin-1") == e for r_ in raw) else e.encode("utf-8").decode("latin-1") for e in exp]
        return data.decode("latin-1"), exp, data
    return data.decode("utf-8"), exp, data


def dedupe_key(ln):
    """the text of a grammar line at the moment adjacent duplicates are collapsed (paths tokenised, Java content still there)"""
    raw, exp, _ = render_lines([ln])
    return raw.strip("\n") if ln[0] in ("x", "s", "b", "S") else "\n".join(exp)


def gen_lines(g):
    out = []
    last_text = None
    for _ in range(g.integer(1, 7)):
        kind = g.pick(["l", "l", "p", "p", "k", "k", "x", "s", "d"])
        text = " ".join(g.pick(WORDS) for _ in range(g.integer(1, 5)))
        if text == last_text:
            text += " again"
        if kind == "l":
            ln = ["l", text]
        elif kind == "p":
            # JavaRosa prints positions for nodes in repeats: /data/member[1]/dbl[1]
            pos = g.p("_", 0.3)
            path = "/" + "/".join(g.pick(SEGS) + (f"[{g.integer(1, 12)}]" if pos and i and g.p("_", 0.6) else "")
                                  for i in range(g.pick([2, 3, 3, 4, 5, 6, 7, 9])))
            if any(path == pre or path.startswith(pre + "/") for pre in ("/html/body", "/html/head", "/root/item")) or path == "/item/value":
                path = "/data/q1"
            if g.p("_", 0.1):
                # forms called root / html: their instance paths only look like the exempted locations
                path = g.pick(["/root/item_count", "/html/body_parts/arm", "/root/items/q1", "/html/header/q"])
            ln = ["p", text + " ", path, g.pick(["", " is wrong", ".", ")"])]
        elif kind == "k":
            path = g.pick(["/html/body/select1", "/html/body/group/input", "/html/head/model/bind", "/root/item/name", "/html/head/model/itext/translation/text",
                           "/html/head/model/instance", "/html/head/title", "jr://file-csv/cities.csv", "http://www.w3.org/2002/xforms", "../grp/a", "../../r1/q2",
                           "jr://images/a/b.png"])
            ln = ["k", text + " ", path, g.pick(["", " stays"])]
            if g.p("_", 0.25):
                # a body path with a predicate: only the instance path inside it is tokenised, the /item/value tail stays
                ln = ["m", text + " /html/body/select1[@ref=/data/grp_1/q1]/item/value", text + " /html/body/select1[@ref=${q1}]/item/value"]
        elif kind == "x":
            ln = ["x", g.pick(["java.lang.RuntimeException: ", "org.javarosa.xpath.XPathUnhandledException: ", "Caused by: ",
                               "Caused by: org.javarosa.xpath.XPathUnhandledException: ", "Caused by: java.lang.RuntimeException: "]), text]
        elif kind == "s":
            ln = ["s", "\tat org.javarosa.%s.%s(%s.java:%d)" % (g.pick(["core", "xform", "xpath"]), g.pick(["parse", "eval", "run"]), g.pick(["A", "Parser"]), g.integer(1, 999))]
            if g.p("_", 0.3):
                ln = ["s", "\t... %d more" % g.integer(1, 40)]
        else:
            ln = ["d", text]
        # the expected cleaning is stated per line: keep adjacent lines distinct so that only 'd' lines are duplicates
        out.append(ln)
        last_text = text
    if g.p("_", 0.3) and len(out) >= 2:
        # the same line again further down (several findings share a follow-up line such as "With element <value>"): only *adjacent*
        # duplicates are collapsed, so every non-adjacent repeat stays
        i = g.integer(0, len(out) - 2)
        if out[i][0] in ("l", "p", "k", "x", "m"):
            j = g.integer(i + 2, len(out))
            cp = list(out[i])
            if all(dedupe_key(nb) != dedupe_key(cp) for nb in out[j - 1:j + 1]):
                out.insert(j, cp)
                out.append(["l", "closing line " + str(g.integer(0, 99))])
                out[-1].append("rep")       # (marker for the label histogram only)
    if g.p("_", 0.1):
        # volume: a stack trace hundreds or thousands of frames deep before the lines that matter, or a long list of findings
        n = g.pick([300, 1200, 3000])
        out.insert(g.integer(1, len(out)) if len(out) > 1 else 1, ["S", n] if g.p("_", 0.6) else ["P", n, g.pick(["finding", "Error"]), g.pick(["q", "age_", "ü"])])
    if out[0][0] in ("s", "S"):
        out.insert(0, ["l", "First line"])
    if g.p("_", 0.15):
        # a console code page that is not UTF-8 (e.g. cp850 u-umlaut 0x81): the stream is read as latin-1
        # (the whole stream is then mojibake: paths with non-ASCII names are kept out of it, their tokenisation is not defined)
        for ln in out:
            if ln[0] == "p":
                ln[2] = ln[2].encode("ascii", "ignore").decode() or "/data/q1"
                if ln[2].count("/") < 2 or "//" in ln[2] or ln[2].endswith("/") or not GRAMMAR_PATH.match(ln[2]):
                    ln[2] = "/data/q1"      # (a step whose name was all non-ASCII is left as a bare position: no path any more)
        out.insert(g.integer(0, len(out)), ["b", (b"Ung" + bytes([g.pick([0x81, 0x8d, 0x8f, 0x90, 0x9d, 0xfc, 0xe9])]) + b"ltig " + g.pick(WORDS[:8]).encode("ascii")).hex()])
    if g.p("_", 0.3):
        # validators often start with an 'Error: ' line; only the jar launcher's own 'Unable to access jarfile' text is passed through as is
        out.insert(0, ["p", g.pick(["Error: ", "Error: evaluating field ", ">> Error: "]) + "bad node ", "/data/" + g.pick(SEGS) + "/" + g.pick(SEGS), ""])
    if any(ln[0] == "b" for ln in out):
        for ln in out:
            if ln[0] == "p":
                ln[2] = ln[2].encode("ascii", "ignore").decode() or "/data/q1"
                if ln[2].count("/") < 2 or "//" in ln[2] or ln[2].endswith("/") or not GRAMMAR_PATH.match(ln[2]):
                    ln[2] = "/data/q1"      # (a step whose name was all non-ASCII is left as a bare position: no path any more)
    return out


# ------------------------------------------------------------------ cases


def enumerate_cases(tier):
    for outcome in OUTCOMES:
        for entry in ENTRIES:
            for form in FORMS:
                for pre in (False, True):
                    for pretty in ((False, True) if tier == "thorough" else (False,)):
                        yield {"outcome": outcome, "entry": entry, "form": form, "pre": pre, "pretty": pretty, "stderr": FIXED_STDERR,
                               "exit": 1, "container": "md"}
    # histories in one process: every ordered pair (and a few triples) of validator outcomes, on the same form and on two forms
    seq_outcomes = ["ok-silent", "ok-stderr", "reject", "killed"]
    for a in seq_outcomes:
        for b in seq_outcomes:
            for forms in (("valid", "valid"), ("warn", "ext"), ("ext", "ext")):
                yield {"entry": "lib-seq", "steps": [{"form": forms[0], "outcome": a, "stderr": FIXED_STDERR, "exit": 1, "pretty": False},
                                                     {"form": forms[1], "outcome": b, "stderr": FIXED_STDERR[3:9], "exit": 2, "pretty": False}]}
    for trip in (("ok-stderr", "ok-silent", "ok-stderr"), ("ok-silent", "reject", "ok-silent"), ("reject", "reject", "ok-stderr"), ("ok-stderr", "ok-stderr", "reject")):
        yield {"entry": "lib-seq", "steps": [{"form": "warn", "outcome": o, "stderr": FIXED_STDERR[i:i + 5], "exit": 1, "pretty": i == 1} for i, o in enumerate(trip)]}
    if tier == "thorough":
        for entry in ("lib", "cli-json"):
            yield {"outcome": "timeout", "entry": entry, "form": "valid", "pre": False, "pretty": False, "stderr": FIXED_STDERR, "exit": 0,
                   "container": "md"}


@st.composite
def _cases(draw):
    prof = dict(gen.PROFILES["broad"], max_rows=8, max_depth=2, text="plain", text_ctl=False, p_external=0.0, p_entities=0.0,
                p_extra_sheets=0.0, settings="some")
    g = gen.G(draw, prof)
    use_generated = g.p("_", 0.5)
    form = "generated" if use_generated else g.pick(FORMS)
    case = {"outcome": g.pick(OUTCOMES[:4] + ["reject", "ok-stderr"]), "entry": g.pick(ENTRIES), "form": form, "pre": g.p("_", 0.4),
            "pretty": g.p("_", 0.4), "stderr": gen_lines(g), "exit": g.pick([1, 1, 2, 3, 134, 255]), "container": g.pick(["md", "md", "xlsx"])}
    if g.p("_", 0.15):
        # a history of validated conversions in one process
        pool = [form] + [g.pick(FORMS[:3]) for _ in range(2)]
        steps = []
        for _ in range(g.integer(2, 4)):
            steps.append({"form": g.pick([form, form] + pool), "outcome": g.pick(["ok-silent", "ok-stderr", "ok-stderr", "reject", "reject", "killed"]),
                          "stderr": gen_lines(g), "exit": g.pick([1, 1, 2, 134]), "pretty": g.p("_", 0.3), "container": case["container"]})
        case = {"entry": "lib-seq", "steps": steps, "form": form, "container": case["container"]}
    if use_generated:
        f = gen.build_form(draw, prof, g=g)
        f.pop("_langs", None)
        f["args"] = {}
        case["gen_form"] = f
        if case["entry"] == "lib-seq":
            return case
        if g.p("_", 0.35):
            # a process whose locale encoding is not UTF-8 (the C locale here; cp1252 on Windows is the same class): the XForm file is
            # UTF-8 whatever the locale says.  The standard streams stay UTF-8 so that only files are in play.
            case["locale"] = "ascii"
            f.setdefault("settings", {})["form_title"] = g.pick(["Enquête ménage", "Überblick", "調査", "Опрос"])
    return case


def strategy(tier):
    return _cases()


# ------------------------------------------------------------------ sandbox


JAVA_SCRIPT = """#!/bin/sh
d="$VF_SCENARIO_DIR"
echo run >> "$d/invoked"
if [ -f "$d/sleep" ]; then sleep "$(cat "$d/sleep")"; fi
if [ -f "$d/stderr" ]; then cat "$d/stderr" >&2; fi
if [ -f "$d/kill" ]; then kill -9 $$; fi
exit "$(cat "$d/exit" 2>/dev/null || echo 0)"
"""


class Box:
    def __init__(self, case):
        self.root = tempfile.mkdtemp(prefix="vfc18_")
        for sub in ("bin", "tmp", "out", "in", "scn"):
            os.mkdir(os.path.join(self.root, sub))
        self.scn = os.path.join(self.root, "scn")
        self.tmp = os.path.join(self.root, "tmp")
        self.out = os.path.join(self.root, "out")
        outcome = case["outcome"]
        self.locale = case.get("locale")
        raw, self.expected_lines, raw_bytes = render_lines(case["stderr"])
        self.raw = raw
        path_dirs = [os.path.join(self.root, "bin")]
        if outcome == "corrupt-jar":
            if REAL_JAVA:
                os.symlink(REAL_JAVA, os.path.join(self.root, "bin", "java"))
        elif outcome != "java-absent":
            jp = os.path.join(self.root, "bin", "java")
            with open(jp, "w") as f:
                f.write(JAVA_SCRIPT)
            os.chmod(jp, os.stat(jp).st_mode | stat.S_IEXEC)
            if outcome in ("ok-stderr", "reject"):
                with open(os.path.join(self.scn, "stderr"), "wb") as f:
                    f.write(raw_bytes)
            if outcome == "reject":
                with open(os.path.join(self.scn, "exit"), "w") as f:
                    f.write(str(case.get("exit", 1)))
            if outcome == "killed":
                open(os.path.join(self.scn, "kill"), "w").close()
            if outcome == "timeout":
                with open(os.path.join(self.scn, "sleep"), "w") as f:
                    f.write("130")
        # sh, cat, sleep for the stand-in; never a java
        self.path = os.pathsep.join(path_dirs + [d for d in ("/usr/bin", "/bin") if not os.path.exists(os.path.join(d, "java"))])
        for tool in ("sh", "cat", "sleep"):
            if not any(os.path.exists(os.path.join(d, tool)) for d in self.path.split(os.pathsep)):
                src = shutil.which(tool)
                if src:
                    os.symlink(src, os.path.join(self.root, "bin", tool))

    def env(self):
        e = {k: v for k, v in os.environ.items() if k not in ("PYXFORM_VERIF",)}
        e.update(PATH=self.path, TMPDIR=self.tmp, TEMP=self.tmp, TMP=self.tmp, VF_SCENARIO_DIR=self.scn, PYTHONPATH=REPO,
                 PYTHONDONTWRITEBYTECODE="1", PYTHONHASHSEED="0")
        if self.locale == "ascii":
            for k in [k for k in e if k.startswith("LC_") or k in ("LANG", "LANGUAGE")]:
                del e[k]
            e.update(LC_ALL="C", PYTHONUTF8="0", PYTHONCOERCECLOCALE="0", PYTHONIOENCODING="utf-8")
        return e

    def started(self):
        return os.path.exists(os.path.join(self.scn, "invoked"))

    def close(self):
        shutil.rmtree(self.root, ignore_errors=True)


def write_input(box, case):
    form = case.get("gen_form") or FIXTURES[case["form"]]
    form = dict(form)
    form.setdefault("args", {})
    if case.get("container") == "xlsx" or not render.md_ok(form):
        p = os.path.join(box.root, "in", "form.xlsx")
        with open(p, "wb") as f:
            f.write(render.to_xlsx(form))
    else:
        p = os.path.join(box.root, "in", "form.md")
        with open(p, "w", encoding="utf-8") as f:
            f.write(render.to_md(form))
    return p


LIB_SNIPPET = r"""
import json, sys
from pyxform.xls2xform import convert
from pyxform.errors import PyXFormError
from pyxform.validators.odk_validate import ODKValidateError
path, pretty = sys.argv[1], sys.argv[2] == "1"
try:
    r = convert(path, validate=True, pretty_print=pretty)
    print(json.dumps({"status": "ok", "xform": r.xform, "warnings": r.warnings, "itemsets": r.itemsets}))
except ODKValidateError as e:
    print(json.dumps({"status": "odk-error", "message": str(e)}))
except PyXFormError as e:
    print(json.dumps({"status": "pyxform-error", "message": str(e)}))
except OSError as e:
    print(json.dumps({"status": "os-error", "message": str(e)}))
except Exception as e:
    print(json.dumps({"status": "crash", "message": type(e).__name__ + ": " + str(e)}))
"""


LIB_SEQ_SNIPPET = r"""
import json, os, sys
from pyxform.xls2xform import convert
from pyxform.errors import PyXFormError
from pyxform.validators.odk_validate import ODKValidateError
plan = json.load(open(sys.argv[1]))
scn = os.environ["VF_SCENARIO_DIR"]
results = []
for step in plan:
    for name in ("stderr", "exit", "kill", "invoked"):
        if os.path.exists(os.path.join(scn, name)):
            os.remove(os.path.join(scn, name))
    if step.get("stderr_hex") is not None:
        open(os.path.join(scn, "stderr"), "wb").write(bytes.fromhex(step["stderr_hex"]))
    if step.get("exit") is not None:
        open(os.path.join(scn, "exit"), "w").write(str(step["exit"]))
    if step.get("kill"):
        open(os.path.join(scn, "kill"), "w").close()
    try:
        r = convert(step["src"], validate=True, pretty_print=step["pretty"])
        res = {"status": "ok", "xform": r.xform, "warnings": r.warnings, "itemsets": r.itemsets}
    except ODKValidateError as e:
        res = {"status": "odk-error", "message": str(e)}
    except PyXFormError as e:
        res = {"status": "pyxform-error", "message": str(e)}
    except OSError as e:
        res = {"status": "os-error", "message": str(e)}
    except Exception as e:
        res = {"status": "crash", "message": type(e).__name__ + ": " + str(e)}
    res["started"] = os.path.exists(os.path.join(scn, "invoked"))
    res["residue"] = sorted(os.listdir(os.environ["TMPDIR"]))
    results.append(res)
print(json.dumps({"results": results}))
"""


def _evaluate_seq(case, box, out):
    """several validated conversions in ONE process, the validator's behaviour changing between them: every call is judged on its own
    (the verdict of an earlier call, or of an earlier call on the very same form, says nothing about this one)"""
    out.label("entry:lib-seq")
    plan, expect_ = [], []
    srcs = {}
    for i, st_ in enumerate(case["steps"]):
        key = st_["form"]
        if key not in srcs:
            sub = dict(case, form=key, container=st_.get("container", "md"))
            if key != "generated":
                sub.pop("gen_form", None)
            d = os.path.join(box.root, "in", f"f{len(srcs)}")
            os.mkdir(d)
            form = dict(sub.get("gen_form") if key == "generated" else FIXTURES[key])
            form.setdefault("args", {})
            if sub["container"] == "xlsx" or not render.md_ok(form):
                pth = os.path.join(d, "form.xlsx")
                open(pth, "wb").write(render.to_xlsx(form))
            else:
                pth = os.path.join(d, "form.md")
                open(pth, "w", encoding="utf-8").write(render.to_md(form))
            srcs[key] = pth
        raw, exp_lines, raw_bytes = render_lines(st_["stderr"])
        o = st_["outcome"]
        plan.append({"src": srcs[key], "pretty": bool(st_.get("pretty")), "stderr_hex": raw_bytes.hex() if o in ("ok-stderr", "reject") else None,
                     "exit": st_.get("exit", 1) if o == "reject" else None, "kill": o == "killed"})
        expect_.append((o, raw, exp_lines))
        out.label(f"outcome:{o}", f"form:{key}")
        for ln in st_["stderr"]:
            out.label(LINE_LABEL[ln[0]])
    forms_seq = [st_["form"] for st_ in case["steps"]]
    if len(set(forms_seq)) < len(forms_seq):
        out.label("seq:same-form-again")
    if any(a["form"] == b["form"] and (a["outcome"] == "reject") != (b["outcome"] == "reject") for a in case["steps"] for b in case["steps"]):
        out.label("seq:verdict-flips-on-same-form")
    plan_path = os.path.join(box.root, "scn", "plan.json")
    with open(plan_path, "w") as f:
        json.dump(plan, f)
    try:
        p = subprocess.run([PY, "-B", "-c", LIB_SEQ_SNIPPET, plan_path], env=box.env(), cwd=box.root, stdout=subprocess.PIPE, stderr=subprocess.PIPE, timeout=600)
    except subprocess.TimeoutExpired:
        out.fail("C18.terminates", "lib-seq", "the calls did not return within 600 s")
        return
    js = last_json(p.stdout.decode("utf-8", "replace"))
    out.checked("C18.lib-outcome")
    if js is None or len(js.get("results", [])) != len(plan):
        out.fail("C18.lib-outcome", "no-result|lib-seq", f"exit {p.returncode}: {p.stderr.decode('utf-8', 'replace')[-300:]}")
        return
    any_started = False
    for i, (res, st_, (o, raw, exp_lines)) in enumerate(zip(js["results"], case["steps"], expect_)):
        ref = reference(plan[i]["src"], plan[i]["pretty"])
        if ref["status"] == "crash":
            out.label("reference-crash:" + ref["sig"])
            continue
        cell = f"{o}|lib-seq"
        where = f"step {i + 1}/{len(plan)} ({st_['form']}, {o})"
        any_started |= bool(res.get("started"))
        if ref["status"] != "ok":
            if res["status"] != "pyxform-error":
                out.fail("C18.lib-outcome", "invalid-form-not-rejected|seq", f"{where}: {str(res)[:300]}")
            if res.get("started"):
                out.fail("C18.validator-started", "started|lib-seq|invalid-form", f"{where}: the validator was started although it must not be")
            continue
        out.checked("C18.validator-started")
        if not res.get("started"):
            out.fail("C18.validator-started", "not-started|lib-seq", f"{where}: validation was requested but the validator was never started")
        if res["status"] == "crash":
            out.fail("C18.lib-outcome", f"crash|{o}|seq", f"{where}: {res['message']}")
        elif o == "reject":
            out.label("verdict:reject")
            body_lines = "\n".join(exp_lines).strip().splitlines()
            exp_msg = "ODK Validate Errors:\n" + "\n".join(body_lines)
            if res["status"] != "odk-error":
                out.fail("C18.lib-outcome", "reject-expected|seq", f"{where}: {str(res)[:300]}")
            else:
                out.checked("C18.cleaned-message")
                if res["message"] != exp_msg:
                    out.fail("C18.cleaned-message", diff_kind(res["message"], exp_msg) + "|seq", f"{where}: got {res['message'][:400]!r} expected {exp_msg[:400]!r}")
        else:
            out.label("verdict:accept")
            vwarn = {"ok-silent": [], "ok-stderr": ["ODK Validate Warnings:\n" + raw], "killed": ["Bad return code from ODK Validate."]}[o]
            if res["status"] != "ok":
                out.fail("C18.lib-outcome", f"accept-expected|{o}|seq", f"{where}: {str(res)[:300]}")
            else:
                check_accept(out, cell, res["xform"], res["warnings"], res["itemsets"], ref, vwarn)
        out.checked("C18.no-temp-residue")
        if res.get("residue"):
            out.fail("C18.no-temp-residue", f"{o}|lib-seq", f"{where}: temporary files survived: {res['residue'][:5]}")
    if any_started:
        out.label("validator-started")
    out.nontrivial = any_started


def reference(path, pretty):
    """what the library says without validation, in this process (the working tree's pyxform)"""
    from pyxform.errors import PyXFormError
    from pyxform.xls2xform import convert

    try:
        r = convert(path, validate=False, pretty_print=pretty)
        return {"status": "ok", "xform": r.xform, "warnings": list(r.warnings), "itemsets": r.itemsets}
    except PyXFormError as e:
        return {"status": "pyxform-error", "message": str(e)}
    except Exception as e:  # noqa: BLE001
        return {"status": "crash", "message": f"{type(e).__name__}: {e}", "sig": crash_sig(e)}


def last_json(text):
    for line in reversed(text.splitlines()):
        line = line.strip()
        if line.startswith("{") and line.endswith("}"):
            try:
                return json.loads(line)
            except ValueError:
                continue
    return None


def without_block(warnings, block):
    """remove one contiguous occurrence of `block` from `warnings`; None if it does not occur"""
    if not block:
        return list(warnings)
    n = len(block)
    for i in range(len(warnings) - n + 1):
        if warnings[i:i + n] == block:
            return warnings[:i] + warnings[i + n:]
    return None


SENTINEL = "SENTINEL: file that existed before the run\n"


def evaluate(case) -> Outcome:
    out = Outcome()
    outcome, entry = case.get("outcome"), case["entry"]
    if outcome == "corrupt-jar" and not REAL_JAVA:
        out.label("no-real-java: corrupt-jar cell skipped")
        return out
    if entry == "lib-seq":
        box = Box({"outcome": "ok-silent", "stderr": [], "locale": None})
        try:
            _evaluate_seq(case, box, out)
        finally:
            box.close()
        return out
    box = Box(case)
    try:
        _evaluate(case, box, out)
    finally:
        box.close()
    return out


def _evaluate(case, box, out):
    outcome, entry, pretty = case["outcome"], case["entry"], bool(case.get("pretty"))
    cell = f"{outcome}|{entry}"
    out.label(f"outcome:{outcome}", f"entry:{entry}", f"form:{case['form']}")
    if case.get("locale"):
        out.label("locale:" + case["locale"])
    for ln in case["stderr"]:
        out.label(LINE_LABEL[ln[0]])
        if ln[-1] == "rep":
            out.label("line:non-adjacent-repeat")
    src = write_input(box, case)
    ref = reference(src, pretty if entry != "lib" else pretty)
    if ref["status"] == "crash":
        out.label("reference-crash:" + ref["sig"])
        return
    form_ok = ref["status"] == "ok"
    validates = entry != "cli-skip" and form_ok
    xml_path = os.path.join(box.out, "form.xml")
    items_path = os.path.join(box.out, "itemsets.csv")
    if case.get("pre") and entry != "lib":
        with open(xml_path, "w") as f:
            f.write(SENTINEL)

    # ---- run
    if entry == "lib":
        cmd = [PY, "-B", "-c", LIB_SNIPPET, src, "1" if pretty else "0"]
    else:
        cmd = [PY, "-B", os.path.join(REPO, "pyxform", "xls2xform.py"), src, xml_path]
        if entry == "cli-json":
            cmd.append("--json")
        if entry == "cli-skip":
            cmd.append("--skip_validate")
        if entry == "cli-odk":
            cmd.append("--odk_validate")
        if pretty:
            cmd.append("--pretty_print")
    try:
        p = subprocess.run(cmd, env=box.env(), cwd=box.root, stdout=subprocess.PIPE, stderr=subprocess.PIPE, timeout=300)
    except subprocess.TimeoutExpired:
        out.fail("C18.terminates", cell, "the call did not return within 300 s")
        return
    so, se = p.stdout.decode("utf-8", "replace"), p.stderr.decode("utf-8", "replace")
    started = box.started()
    if started:
        out.label("validator-started")

    # ---- expected verdict
    if not form_ok:
        verdict = "invalid-form"
    elif not validates:
        verdict = "accept"
        vwarn = []
    elif outcome == "ok-silent":
        verdict, vwarn = "accept", []
    elif outcome == "ok-stderr":
        verdict, vwarn = "accept", ["ODK Validate Warnings:\n" + box.raw]
    elif outcome == "killed":
        verdict, vwarn = "accept", ["Bad return code from ODK Validate."]
    elif outcome == "timeout":
        verdict, vwarn = "accept", ["XForm took to long to completely validate."]
    elif outcome == "reject":
        verdict = "reject"
    elif outcome == "corrupt-jar":
        verdict = "reject-real"
    else:
        verdict = "no-java"
    out.label("verdict:" + verdict.split("-")[0])

    # the stand-in must (not) have been started
    out.checked("C18.validator-started")
    if outcome not in ("java-absent", "corrupt-jar"):
        if validates and not started:
            out.fail("C18.validator-started", f"not-started|{entry}", "validation was requested but the validator was never started")
        if not validates and started:
            out.fail("C18.validator-started", f"started|{entry}|{'invalid-form' if not form_ok else 'skip'}", "the validator was started although it must not be")

    # (the statement is about the validator's lines: white space before the first and after the last of them is not part of any line's
    # content -- the stream is trimmed as a whole)
    body_lines = "\n".join(box.expected_lines).strip().splitlines()
    exp_msg = "ODK Validate Errors:\n" + "\n".join(body_lines)

    # ---- library entry
    if entry == "lib":
        res = last_json(so)
        out.checked("C18.lib-outcome")
        if res is None:
            out.fail("C18.lib-outcome", f"no-result|{outcome}", f"exit {p.returncode}: {se[-300:]}")
        elif res["status"] == "crash":
            out.fail("C18.lib-outcome", f"crash|{outcome}", res["message"])
        elif verdict == "invalid-form":
            if res["status"] != "pyxform-error":
                out.fail("C18.lib-outcome", "invalid-form-not-rejected", str(res)[:300])
        elif verdict == "accept":
            if res["status"] != "ok":
                out.fail("C18.lib-outcome", f"accept-expected|{outcome}", str(res)[:300])
            else:
                check_accept(out, cell, res["xform"], res["warnings"], res["itemsets"], ref, vwarn)
        elif verdict == "reject":
            if res["status"] != "odk-error":
                out.fail("C18.lib-outcome", f"reject-expected|exit{'1' if case.get('exit', 1) == 1 else 'N'}", str(res)[:300])
            else:
                out.checked("C18.cleaned-message")
                if res["message"] != exp_msg:
                    out.fail("C18.cleaned-message", diff_kind(res["message"], exp_msg), f"got {res['message']!r} expected {exp_msg!r}")
        elif verdict == "reject-real":
            if res["status"] != "odk-error" or "jarfile" not in res["message"]:
                out.fail("C18.lib-outcome", "corrupt-jar", str(res)[:300])
            else:
                # the launcher's own diagnostic names a file, not an instance node: it is carried as it is
                out.checked("C18.cleaned-message")
                if "ODK_Validate.jar" not in res["message"] or "${" in res["message"]:
                    out.fail("C18.cleaned-message", "corrupt-jar-path-rewritten", f"got {res['message']!r}")
        else:
            if res["status"] != "os-error" or "Java" not in res["message"]:
                out.fail("C18.lib-outcome", "java-absent", str(res)[:300])
    # ---- command line entries
    else:
        js = last_json(se) or last_json(so)
        exists = os.path.exists(xml_path)
        content = open(xml_path, encoding="utf-8").read() if exists else None
        if entry == "cli-json":
            out.checked("C18.cli-json")
            if js is None or "code" not in js:
                out.fail("C18.cli-json", f"no-json|{outcome}", f"exit {p.returncode}; stderr: {se[-300:]}")
                return
            if verdict == "accept":
                exp_code = 101 if (ref["warnings"] or vwarn) else 100
                if js["code"] != exp_code:
                    out.fail("C18.cli-json", f"code|{outcome}", f"code {js['code']} expected {exp_code}: {js.get('message')}")
                else:
                    if not exists or content == SENTINEL:
                        out.fail("C18.cli-output", f"not-written|{cell}", "accepted but the output file was not written")
                    else:
                        check_accept(out, cell, content, js["warnings"], read_text(items_path), ref, vwarn)
            else:
                if js["code"] != 999:
                    out.fail("C18.cli-json", f"code|{outcome}|{verdict}", f"code {js['code']} expected 999: {js.get('message')}")
                if verdict == "reject":
                    out.checked("C18.cleaned-message")
                    if js.get("message") != exp_msg:
                        out.fail("C18.cleaned-message", diff_kind(js.get("message") or "", exp_msg), f"got {js.get('message')!r} expected {exp_msg!r}")
                elif verdict == "invalid-form" and js.get("message") != ref["message"]:
                    out.fail("C18.cli-json", "invalid-form-message", f"{js.get('message')!r} vs {ref['message']!r}")
                elif verdict == "no-java" and "Java" not in (js.get("message") or ""):
                    out.fail("C18.cli-json", "java-absent-message", str(js)[:300])
                out.checked("C18.cli-output")
                want = SENTINEL if case.get("pre") else None
                if content != want:
                    out.fail("C18.cli-output", f"touched|{verdict}|{'pre' if case.get('pre') else 'absent'}",
                             f"failure reported but the output path holds {None if content is None else content[:60]!r}, expected {want!r}")
        else:
            out.checked("C18.cli-plain")
            if "Traceback" in se and verdict not in ("invalid-form",) and "ODKValidateError" not in se and "EnvironmentError" not in se:
                out.fail("C18.cli-plain", f"traceback|{cell}", se[-300:])
            if verdict == "accept":
                if not exists or content == SENTINEL:
                    out.fail("C18.cli-output", f"not-written|{cell}", f"accepted but the output file was not written; stderr {se[-200:]}")
                else:
                    check_accept(out, cell, content, None, read_text(items_path), ref, vwarn)
                    for w in vwarn:
                        if w.splitlines()[0] not in se:
                            out.fail("C18.warnings", f"not-shown|{cell}", f"validator warning not reported: {se[-200:]}")
            elif verdict in ("reject", "reject-real"):
                out.checked("C18.cli-output")
                if exists:
                    out.fail("C18.cli-output", f"left-behind|{verdict}|{'pre' if case.get('pre') else 'absent'}",
                             "the validator rejected the form but the output path still holds a file")
                if "ODKValidateError" not in se:
                    out.fail("C18.cli-plain", f"not-reported|{cell}", f"no ODKValidateError logged: {se[-200:]}")
                if verdict == "reject":
                    out.checked("C18.cleaned-message")
                    missing = [ln for ln in body_lines if ln not in se]
                    if missing:
                        out.fail("C18.cleaned-message", "plain-missing-line", f"lines missing from the log: {missing[:3]}")
            elif verdict == "no-java":
                out.checked("C18.cli-output")
                want = SENTINEL if case.get("pre") else None
                if content != want:
                    out.fail("C18.cli-output", f"touched|no-java|{'pre' if case.get('pre') else 'absent'}", f"output path holds {content!r:.80}")
                if "Java" not in se:
                    out.fail("C18.cli-plain", "java-absent-not-reported", se[-200:])
            else:  # invalid form: the library error propagates; nothing may be written
                out.checked("C18.cli-output")
                want = SENTINEL if case.get("pre") else None
                if content != want:
                    out.fail("C18.cli-output", f"touched|invalid-form|{'pre' if case.get('pre') else 'absent'}", f"output path holds {content!r:.80}")
                if "PyXFormError" not in se:
                    out.fail("C18.cli-plain", "invalid-form-not-reported", se[-200:])
        # itemsets.csv beside the output iff external choices and accepted
        out.checked("C18.itemsets-file")
        has_items = os.path.exists(items_path)
        want_items = verdict == "accept" and ref.get("itemsets") is not None
        if has_items != want_items:
            out.fail("C18.itemsets-file", f"{'missing' if want_items else 'unexpected'}|{verdict}", f"itemsets.csv exists={has_items}")

    # ---- residue, under every outcome
    out.checked("C18.no-temp-residue")
    left = sorted(os.listdir(box.tmp))
    if left:
        out.fail("C18.no-temp-residue", f"{verdict}|{entry}", f"temporary files survived: {left[:5]}")
    out.checked("C18.no-stray-output")
    stray = sorted(set(os.listdir(box.out)) - {"form.xml", "itemsets.csv"})
    stray += sorted(set(os.listdir(os.path.join(box.root, "in"))) - {"form.md", "form.xlsx"})
    if stray:
        out.fail("C18.no-stray-output", f"{verdict}|{entry}", f"unexpected files: {stray[:5]}")
    out.nontrivial = started or verdict in ("no-java", "reject-real", "invalid-form")


def read_text(path):
    if not os.path.exists(path):
        return None
    with open(path, encoding="utf-8", newline="") as f:
        return f.read()


def check_accept(out, cell, xform, warnings, itemsets, ref, vwarn):
    out.checked("C18.output-equals-library")
    if xform != ref["xform"]:
        out.fail("C18.output-equals-library", cell.split("|")[1], f"XForm differs from convert(validate=False): lengths {len(xform)} vs {len(ref['xform'])}")
    if warnings is not None:
        out.checked("C18.warnings")
        rest = without_block(list(warnings), vwarn)
        if rest is None:
            out.fail("C18.warnings", f"validator-warnings-missing|{cell}", f"{warnings!r} lacks {vwarn!r}")
        elif rest != ref["warnings"]:
            out.fail("C18.warnings", f"other-warnings-changed|{cell}", f"{rest!r} vs {ref['warnings']!r}")
    if itemsets is not None or ref.get("itemsets") is not None:
        out.checked("C18.itemsets")
        if (itemsets or "").replace("\r\n", "\n") != (ref.get("itemsets") or "").replace("\r\n", "\n"):
            out.fail("C18.itemsets", cell.split("|")[1], f"{itemsets!r} vs {ref.get('itemsets')!r}")


def diff_kind(got, exp):
    g, e = got.splitlines(), exp.splitlines()
    if any("\tat " in x or ".java:" in x for x in g):
        return "stack-line-kept"
    if any(x.startswith(("java.lang.", "org.javarosa.")) for x in g):
        return "prefix-kept"
    if len(g) > len(e):
        return "extra-line"
    if len(g) < len(e):
        return "missing-line"
    if any(re.search(r"\$\{", a) and not re.search(r"\$\{", b) for a, b in zip(e, g)):
        return "path-not-tokenised"
    return "line-differs"
