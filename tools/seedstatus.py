#!/venv/bin/python
"""Record, for every seeded change, whether it still applies to /repo HEAD and still breaks its property there
(its own demo exits 1 with the patch, 0 without).  Later `fix:` commits can supersede a seeded change: the lines it
touched were rewritten, or the defect it re-introduces is now prevented elsewhere.  Writes meta['at_head'].

usage: tools/seedstatus.py [ids...]
"""
import concurrent.futures as cf
import json
import os
import subprocess
import sys

sys.path.insert(0, os.path.dirname(os.path.abspath(__file__)))
from seedeval import SEEDED, Worktree, run_demo, sh  # noqa: E402


def one(sid):
    d = os.path.join(SEEDED, sid)
    mp = os.path.join(d, "meta.json")
    if not os.path.exists(mp):
        return sid, None
    head = sh(["git", "-C", "/repo", "rev-parse", "--short", "HEAD"])[1].strip()
    with Worktree(os.path.join(d, "patch.diff")) as wt:
        if not wt.applied:
            st = {"head": head, "applies": False, "status": "superseded: the patch no longer applies (the lines it changes were rewritten by later fix: commits)"}
        else:
            rc1, _ = run_demo(os.path.join(d, "demo.py"), wt.dir)
            st = {"head": head, "applies": True, "demo_exit_with_patch": rc1,
                  "status": "live" if rc1 == 1 else "neutralised: with the patch applied its own demonstration no longer fails (a later fix: commit prevents the defect elsewhere)"}
    m = json.load(open(mp))
    m["at_head"] = st
    json.dump(m, open(mp, "w"), indent=1, ensure_ascii=False)
    return sid, st["status"].split(":")[0]


if __name__ == "__main__":
    ids = sys.argv[1:] or sorted(os.listdir(SEEDED))
    with cf.ThreadPoolExecutor(6) as ex:
        for sid, st in ex.map(one, ids):
            if st and st != "live":
                print(sid, st)
