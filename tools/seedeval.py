#!/venv/bin/python
"""Confirm and evaluate seeded changes written by independent sub-agents.

usage: tools/seedeval.py confirm <src-dir>        # src-dir/Cxx/{patchN.diff,demoN.py,noteN.txt} -> /verif/seeded/Cxx-N/ for confirmed ones
       tools/seedeval.py run [ids...] [--all-checks] [--tier quick]   # run the property's check (or all checks) against each seeded change

Every step works in a scratch git worktree of /repo under /tmp that is removed afterwards; /repo itself is never touched.
"""
import concurrent.futures as cf
import json
import os
import shutil
import subprocess
import sys
import tempfile

HERE = os.path.dirname(os.path.dirname(os.path.abspath(__file__)))
SEEDED = os.path.join(HERE, "seeded")
PY = "/venv/bin/python"


def sh(cmd, cwd=None, env=None, timeout=3600):
    p = subprocess.run(cmd, cwd=cwd, env=env, stdout=subprocess.PIPE, stderr=subprocess.STDOUT, text=True, timeout=timeout)
    return p.returncode, p.stdout


class Worktree:
    def __init__(self, patch=None):
        self.patch = patch

    def __enter__(self):
        self.dir = tempfile.mkdtemp(prefix="seedwt_", dir="/tmp")
        os.rmdir(self.dir)
        rc, out = sh(["git", "-C", "/repo", "worktree", "add", "-q", "--detach", self.dir, "HEAD"])
        if rc:
            raise RuntimeError(out)
        self.applied = None
        if self.patch:
            rc, out = sh(["git", "apply", self.patch], cwd=self.dir)
            if rc:
                rc, out = sh(["git", "apply", "-3", self.patch], cwd=self.dir)
            self.applied = (rc == 0)
            self.apply_out = out
        return self

    def __exit__(self, *a):
        sh(["git", "-C", "/repo", "worktree", "remove", "--force", self.dir])
        shutil.rmtree(self.dir, ignore_errors=True)


def run_demo(demo, tree):
    env = dict(os.environ, PYTHONPATH=tree, PYTHONDONTWRITEBYTECODE="1")
    env.pop("PYXFORM_VERIF", None)
    try:
        return sh([PY, "-B", demo], cwd=tree, env=env, timeout=600)
    except subprocess.TimeoutExpired:
        return 124, "timeout"


def confirm_one(args):
    prop, n, src = args[:3]
    offset = args[3] if len(args) > 3 else 0
    patch = os.path.join(src, prop, f"patch{n}.diff")
    demo = os.path.join(src, prop, f"demo{n}.py")
    note = os.path.join(src, prop, f"note{n}.txt")
    res = {"id": f"{prop}-{n + offset}", "property": prop}
    if not (os.path.exists(patch) and os.path.exists(demo)):
        res["status"] = "missing"
        return res
    # the sub-agents' demos refer to their own worktree paths: run a copy with those paths neutralised
    with Worktree() as clean:
        rc0, out0 = run_demo(demo, clean.dir)
    with Worktree(patch) as wt:
        if not wt.applied:
            res["status"] = "patch-does-not-apply"
            res["detail"] = wt.apply_out[-400:]
            return res
        rc1, out1 = run_demo(demo, wt.dir)
        rcb, outb = sh([PY, os.path.join(HERE, "tools", "baseline.py"), wt.dir], timeout=3600)
    res.update(demo_clean_exit=rc0, demo_patched_exit=rc1, baseline=outb.strip().splitlines()[0] if outb.strip() else "", demo_patched_output=out1[-500:])
    ok = rc0 == 0 and rc1 == 1 and rcb == 0
    res["status"] = "confirmed" if ok else "rejected"
    if ok:
        d = os.path.join(SEEDED, res["id"])
        os.makedirs(d, exist_ok=True)
        shutil.copy(patch, os.path.join(d, "patch.diff"))
        shutil.copy(demo, os.path.join(d, "demo.py"))
        meta = {"id": res["id"], "property": prop, "breaks": prop,
                "needs": open(note).read().strip() if os.path.exists(note) else "",
                "origin": "written by an independent sub-agent that saw only the property text and a scratch worktree",
                "confirmed": {"demo_exit_clean_tree": rc0, "demo_exit_with_patch": rc1, "baseline_with_patch": res["baseline"],
                              "how": "tools/seedeval.py confirm: scratch worktree of /repo HEAD, git apply, demo.py with PYTHONPATH=<worktree>, tools/baseline.py <worktree>"},
                "detected_by": {}}
        json.dump(meta, open(os.path.join(d, "meta.json"), "w"), indent=1, ensure_ascii=False)
    return res


def confirm(src, offset=0, only=None):
    jobs = []
    for prop in sorted(os.listdir(src)):
        if not os.path.isdir(os.path.join(src, prop)) or not prop.startswith("C") or (only and prop not in only):
            continue
        for n in (1, 2, 3, 4):
            if os.path.exists(os.path.join(src, prop, f"patch{n}.diff")):
                jobs.append((prop, n, src, offset))
    with cf.ThreadPoolExecutor(8) as ex:
        for r in ex.map(confirm_one, jobs):
            print(json.dumps({k: v for k, v in r.items() if k != "demo_patched_output"}))


def run(ids, all_checks=False, tier="quick", examples=None, only_checks=None):
    props = [json.loads(l)["id"] for l in open(os.path.join(HERE, "properties.jsonl"))]
    man = json.load(open(os.path.join(HERE, "MANIFEST.json")))
    built = [c["property_id"] for c in man["checks"]]
    for sid in ids or sorted(os.listdir(SEEDED)):
        d = os.path.join(SEEDED, sid)
        mp = os.path.join(d, "meta.json")
        if not os.path.exists(mp):
            continue
        meta = json.load(open(mp))
        checks = built if all_checks else [meta["property"]] if meta["property"] in built else []
        if only_checks:
            checks = only_checks
        with Worktree(os.path.join(d, "patch.diff")) as wt:
            if not wt.applied:
                print(sid, "patch no longer applies")
                meta.setdefault("detected_by", {})["_apply"] = "patch no longer applies to /repo HEAD"
                json.dump(meta, open(mp, "w"), indent=1, ensure_ascii=False)
                continue
            for pid in checks:
                env = dict(os.environ, VERIF_REPO=wt.dir, VERIF_NO_EVIDENCE="1")
                cmd = [os.path.join(HERE, "check"), pid, "--tier", tier, "--no-shrink"]
                if examples:
                    cmd += ["--examples", str(examples)]
                rc, out = sh(cmd, cwd=HERE, env=env, timeout=7200)
                viol = [l for l in out.splitlines() if l.startswith("violation detail")]
                verdict = {0: "missed", 1: "caught", 2: "harness-error"}.get(rc, f"exit {rc}")
                meta.setdefault("detected_by", {})[pid] = {"verdict": verdict, "tier": tier, "first": viol[0][:300] if viol else ""}
                print(sid, pid, verdict, (viol[0][:160] if viol else ""))
                sys.stdout.flush()
        json.dump(meta, open(mp, "w"), indent=1, ensure_ascii=False)


if __name__ == "__main__":
    if sys.argv[1] == "confirm":
        # confirm <src-dir> [--offset K] [Cxx ...]
        a = sys.argv[3:]
        off = int(a[a.index("--offset") + 1]) if "--offset" in a else 0
        only = [x for x in a if x.startswith("C")]
        confirm(sys.argv[2], off, only or None)
    else:
        args = sys.argv[2:]
        allc = "--all-checks" in args
        tier = "quick"
        ex = None
        if "--tier" in args:
            tier = args[args.index("--tier") + 1]
        if "--examples" in args:
            ex = int(args[args.index("--examples") + 1])
        skip = set()
        only = None
        if "--checks" in args:
            only = args[args.index("--checks") + 1].split(",")
        for flag in ("--tier", "--examples", "--checks"):
            if flag in args:
                i = args.index(flag)
                skip.update((i, i + 1))
        ids = [a for i, a in enumerate(args) if not a.startswith("--") and i not in skip]
        run(ids, allc, tier, ex, only)
