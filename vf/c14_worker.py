"""Long-lived conversion worker for C14.  Started with its own PYTHONHASHSEED and a private TMPDIR.

Protocol: one JSON object per line on stdin, one JSON object per line on stdout.
  {"op": "convert", "wb": ..., "args": ..., "pretty": bool, "regen": k}
  {"op": "threads", "jobs": [{"wb":..., "args":..., "pretty":...}, ...], "schedule": [[gap, next], ...]}   # harness-owned schedule
  {"op": "focus",   "jobs": [...], "picks": [ints]}   # race-directed schedules in pristine children (ask the template worker)
  {"op": "stress",  "jobs": [...], "threads": n, "rounds": r}                                             # free-running threads
"""

from __future__ import annotations

import copy
import hashlib
import json
import os
import sys
import threading
import traceback

import pyxform
from pyxform import aliases, constants
from pyxform.errors import PyXFormError
from pyxform.xls2xform import convert

PYX = os.path.dirname(os.path.abspath(pyxform.__file__)) + os.sep


def _tables():
    """deep textual snapshot of pyxform's module-level containers"""
    from pyxform import question_type_dictionary as qtd
    from pyxform.validators.pyxform import translations_checks

    snap = {}
    for mod in (aliases, constants, qtd, translations_checks):
        for k in sorted(vars(mod)):
            v = getattr(mod, k)
            if k.startswith("__") or callable(v) and not isinstance(v, (dict, list, set, tuple, frozenset)):
                continue
            if isinstance(v, (dict, list, set, frozenset, tuple)):
                snap[f"{mod.__name__}.{k}"] = _canon(v)
    return hashlib.sha1(json.dumps(snap, sort_keys=True, default=str).encode()).hexdigest()


def _canon(v):
    if isinstance(v, dict):
        return {str(k): _canon(x) for k, x in sorted(v.items(), key=lambda kv: str(kv[0]))}
    if isinstance(v, (set, frozenset)):
        return sorted((_canon(x) for x in v), key=str)
    if isinstance(v, (list, tuple)):
        return [_canon(x) for x in v]
    return str(v)


TABLES0 = _tables()
TMP = os.environ.get("TMPDIR")


def one(job):
    """convert a private deep copy of the input; -> result dict"""
    if "wb_hex" in job:
        # a file's bytes (an .xlsx workbook): the readers' own caches and tables are part of the state under test
        job = dict(job, wb=bytes.fromhex(job["wb_hex"]), args=dict(job.get("args") or {}, file_type=job.get("file_type")))
    wb = copy.deepcopy(job["wb"])
    try:
        r = convert(wb, pretty_print=bool(job.get("pretty")), **(job.get("args") or {}))
    except PyXFormError as e:
        return {"status": "rejected", "message": str(e)}
    except Exception as e:  # noqa: BLE001
        return {"status": "crash", "message": f"{type(e).__name__}: {e}", "trace": traceback.format_exc()[-600:]}
    res = {"status": "ok", "xform": r.xform, "warnings": list(r.warnings), "itemsets": r.itemsets}
    # the caller's workbook object is part of "state left behind": it must come back as it went in, and a second conversion of the
    # very same object must say the same
    res["input_unchanged"] = wb == job["wb"]
    if job.get("twice"):
        try:
            r2 = convert(wb, pretty_print=bool(job.get("pretty")), **(job.get("args") or {}))
            res["second_same"] = (r2.xform, list(r2.warnings), r2.itemsets) == (r.xform, list(r.warnings), r.itemsets)
            if not res["second_same"]:
                res["second"] = {"warnings": list(r2.warnings), "xform_same": r2.xform == r.xform}
        except Exception as e:  # noqa: BLE001
            res["second_same"] = False
            res["second"] = {"error": f"{type(e).__name__}: {e}"[:300]}
    k = int(job.get("regen") or 0)
    if k:
        again = []
        for i in range(k):
            pretty = bool(job.get("pretty")) if i % 2 == 0 else not bool(job.get("pretty"))
            try:
                x = r._survey.to_xml(validate=False, pretty_print=pretty, warnings=[])
            except Exception as e:  # noqa: BLE001  -- the first call succeeded on this very object
                res["regen_error"] = f"call {i + 2}: {type(e).__name__}: {e}"[:300]
                break
            if pretty == bool(job.get("pretty")):
                again.append(x)
        res["regen"] = again
    return res


def residue():
    try:
        return sorted(os.listdir(TMP)) if TMP else []
    except OSError:
        return []


class Sched:
    """K threads pass a baton; a profile hook on pyxform 'call' events decides when to switch.

    Only the baton holder runs.  If the holder blocks on a real lock that a waiting thread owns (no profile event from anyone for
    STALL seconds), a waiter takes the baton back and the blocked thread is left out of hand-offs until it shows life again; after
    MAX_STALLS of these the rest of the run is left to the interpreter's own scheduling (still a legal schedule)."""

    STALL = 0.15
    MAX_STALLS = 6
    focus = None        # (file, first line) of one function: every entry of it hands the baton on (race-directed schedule)
    max_switches = 400

    def __init__(self, n, schedule):
        self.n = n
        self.sems = [threading.Semaphore(0) for _ in range(n)]
        self.sched = [tuple(x) for x in schedule]
        self.count = 0
        self.done = [False] * n
        self.switches = 0
        self.lock_fail = None
        self.holder = 0
        self.events = 0
        self.stuck = set()
        self.stalls = 0
        self.free = False
        self.mu = threading.Lock()

    def hook(self, tid):
        def prof(frame, event, arg):
            if self.free:
                return
            self.events += 1
            if self.holder != tid:
                # presumed blocked while the baton moved on: wait for our turn
                self.stuck.discard(tid)
                self.wait(tid)
                if self.free:
                    return
            if event == "call" and frame.f_code.co_filename.startswith(PYX):
                if self.focus is None:
                    self.tick(tid)
                elif frame.f_code.co_firstlineno == self.focus[1] and frame.f_code.co_filename[len(PYX):] == self.focus[0]:
                    if self.switches < self.max_switches:
                        self.handoff(tid, (tid + 1) % self.n)
        return prof

    def wait(self, tid):
        waited = 0.0
        while not self.free and self.holder != tid:
            last = self.events
            got = self.sems[tid].acquire(timeout=self.STALL)
            if self.holder == tid or self.free:
                return
            if got:
                continue        # a stale release
            waited += self.STALL
            if waited > 120:
                self.lock_fail = f"thread {tid} never got the baton back"
                self.set_free()
                return
            with self.mu:
                if self.events == last and self.holder != tid and not self.done[self.holder]:
                    # nobody moved: the holder is blocked on a lock; take the baton back
                    self.stuck.add(self.holder)
                    self.holder = tid
                    self.events += 1
                    self.stalls += 1
                    if self.stalls >= self.MAX_STALLS:
                        self.set_free()
                    return

    def set_free(self):
        self.free = True
        for s in self.sems:
            s.release()

    def handoff(self, tid, start):
        nxt = None
        for d in range(self.n):
            j = (start + d) % self.n
            if j != tid and not self.done[j] and j not in self.stuck:
                nxt = j
                break
        if nxt is None:
            return
        self.switches += 1
        self.holder = nxt
        self.sems[nxt].release()
        self.wait(tid)

    def tick(self, tid):
        if not self.sched:
            return
        self.count += 1
        gap, nxt = self.sched[0]
        if self.count < gap:
            return
        self.sched.pop(0)
        self.count = 0
        nxt %= self.n
        if nxt == tid or self.done[nxt] or nxt in self.stuck:
            return
        self.switches += 1
        self.holder = nxt
        self.sems[nxt].release()
        self.wait(tid)

    def finish(self, tid):
        self.done[tid] = True
        self.stuck.discard(tid)
        if self.free or self.holder != tid:
            return
        for j in range(self.n):
            if not self.done[j] and j not in self.stuck:
                self.holder = j
                self.sems[j].release()
                return
        for j in range(self.n):
            if not self.done[j]:       # only blocked threads are left: whoever wakes up is the holder
                self.holder = j
                self.sems[j].release()
                return


def run_threads(jobs, schedule, focus=None):
    n = len(jobs)
    sch = Sched(n, schedule)
    if focus is not None:
        sch.focus = tuple(focus)
    results = [None] * n

    def body(i):
        sch.wait(i)
        sys.setprofile(sch.hook(i))
        try:
            results[i] = one(jobs[i])
        finally:
            sys.setprofile(None)
            sch.finish(i)

    ts = [threading.Thread(target=body, args=(i,), daemon=True) for i in range(n)]
    for t in ts:
        t.start()
    for t in ts:
        t.join(timeout=300)
    hung = any(t.is_alive() for t in ts)
    return results, sch.switches, hung or bool(sch.lock_fail)


def run_stress(jobs, nthreads, rounds):
    old = sys.getswitchinterval()
    sys.setswitchinterval(1e-6)
    results = [[None] * rounds for _ in range(nthreads)]

    def body(t):
        for r in range(rounds):
            results[t][r] = one(jobs[(t + r) % len(jobs)])

    try:
        ts = [threading.Thread(target=body, args=(t,), daemon=True) for t in range(nthreads)]
        for t in ts:
            t.start()
        for t in ts:
            t.join(timeout=600)
    finally:
        sys.setswitchinterval(old)
    return [[(results[t][r], (t + r) % len(jobs)) for r in range(rounds)] for t in range(nthreads)]


def call_keys(job, picks):
    """convert alone, recording every pyxform call event; -> the function (file, first line) at each picked event index.
    Picking by event makes often-called functions likelier, which is where a shared object is touched most"""
    keys = []

    def prof(frame, event, arg):
        if event == "call" and frame.f_code.co_filename.startswith(PYX):
            keys.append((frame.f_code.co_filename[len(PYX):], frame.f_code.co_firstlineno))

    sys.setprofile(prof)
    try:
        one(job)
    finally:
        sys.setprofile(None)
    if not keys:
        return {"keys": [], "events": 0}
    return {"keys": [list(keys[p % len(keys)]) for p in picks], "events": len(keys), "functions": len(set(keys))}


def focus_run(msg):
    """race-directed schedules, each in a pristine child (cold caches): the function at a sampled call event of job 0 becomes the
    switch point -- whenever a thread enters it, the next thread runs until it enters it too"""
    picked = fresh(msg, lambda m: call_keys(m["jobs"][0], m["picks"]))
    runs = []
    seen = set()
    for key in picked.get("keys", []):
        if tuple(key) in seen:
            continue
        seen.add(tuple(key))

        def go(m, key=key):
            results, switches, hung = run_threads(m["jobs"], [], focus=key)
            return {"results": results, "switches": switches, "hung": hung}

        r = fresh(msg, go)
        r["key"] = key
        runs.append(r)
    return {"runs": runs, "events": picked.get("events", 0), "functions": picked.get("functions", 0)}


def fresh(job, fn=None):
    """answer of a pristine child: this (template) process has imported pyxform and never converted anything, so a fork of it is
    in the state of a fresh process after import"""
    fn = fn or one
    r, w = os.pipe()
    pid = os.fork()
    if pid == 0:
        try:
            os.close(r)
            data = json.dumps(fn(job)).encode()
            with os.fdopen(w, "wb") as f:
                f.write(data)
        finally:
            os._exit(0)
    os.close(w)
    with os.fdopen(r, "rb") as f:
        data = f.read()
    os.waitpid(pid, 0)
    return json.loads(data) if data else {"status": "crash", "message": "fresh child produced nothing"}


def _exit_with_parent():
    """never outlive the check that started us"""
    import time

    parent = os.getppid()
    while True:
        time.sleep(2)
        if os.getppid() != parent:
            os._exit(0)


def main():
    out = sys.stdout
    threading.Thread(target=_exit_with_parent, daemon=True).start()
    for line in sys.stdin:
        line = line.strip()
        if not line:
            continue
        msg = json.loads(line)
        try:
            if msg["op"] == "fresh":
                res = fresh(msg)
            elif msg["op"] == "focus":
                res = focus_run(msg)
            elif msg["op"] == "convert":
                res = one(msg)
            elif msg["op"] == "threads":
                results, switches, hung = run_threads(msg["jobs"], msg["schedule"])
                res = {"results": results, "switches": switches, "hung": hung}
            elif msg["op"] == "stress":
                res = {"runs": run_stress(msg["jobs"], msg["threads"], msg["rounds"])}
            else:
                res = {"error": "unknown op"}
            res["tmp"] = residue()
            res["tables_same"] = _tables() == TABLES0
            res["hashseed"] = os.environ.get("PYTHONHASHSEED")
        except BaseException as e:  # noqa: BLE001
            res = {"error": f"{type(e).__name__}: {e}", "trace": traceback.format_exc()[-800:]}
        out.write("@@VF " + json.dumps(res) + "\n")
        out.flush()


if __name__ == "__main__":
    main()
