"""C17 -- broken forms are rejected with a located diagnosis; nothing ever crashes.

Two engines share this module:
  (a) breaking mutations: a generated valid form x one catalogued operator x a generated applicable site
  (b) vocabulary soup: sheets assembled from XLSForm vocabulary without regard for validity
"""

from __future__ import annotations

import copy
import random
import re

from hypothesis import strategies as st
from pyxform.errors import PyXFormError

from vf import common, gen, model, render
from vf.props import c01
from vf.runner import Outcome, crash_sig

ID = "C17"
LEVEL = "exploration"
RULE = ("(a) Hypothesis-generated valid broad forms (accepted by the unchanged converter is checked per case) x one of the catalogued "
        "breaking operators x a generated applicable site (any depth, inside repeats, after blank rows): the conversion must raise "
        "PyXFormError, the message must contain the planted token(s), must cite [row : n] of the planted row when the defect is confined "
        "to one row and the error is raised while the sheets are parsed (workbook_to_json raises it), and must have the same shape as the "
        "message for the same operator on a 3-row form; (b) vocabulary soup workbooks (types, names, parameters, references, appearances, "
        "sparse rows, empty groups, random headers on every sheet): the only outcomes are a result that passes C01's predicate or "
        "PyXFormError. Non-trivial = (a) a mutation applied at depth >= 1 or after a blank row, (b) a soup workbook whose survey sheet "
        "reached the row loop (>= 1 typed row); distinct by SHA-1 of the case JSON")
ASSUMPTIONS = ["'the error belongs to a row' is decided by an observable: the operator plants its defect in one survey/choices row and "
               "pyxform's own sheet-parsing stage (workbook_to_json) is the one that raises",
               "operators plant unique tokens so that 'identifying the problem' is a substring test, not a judgement"]
BUDGET = {"quick": 14000, "thorough": 400000}


# ============================================================ helpers on the abstract form


def rnd(seed, *site):
    return random.Random(f"{seed}:" + ":".join(map(str, site)))


def rows_of(form):
    """-> {id(node): (begin_row, end_row or None)}; header is row 1"""
    out = {}

    def walk(ns, r):
        for n in ns:
            b = r
            r += 1
            if n["k"] in ("g", "r"):
                r = walk(n.get("ch", []), r)
                out[id(n)] = (b, r)
                r += 1
            else:
                out[id(n)] = (b, None)
        return r

    walk(form["nodes"], 2)
    return out


def all_nodes(form):
    return list(model.walk(form["nodes"]))


def depth_label(anc, form, node):
    return f"depth:{min(len(anc), 3)}"


def choice_row_number(form, li, ri):
    n = 2
    for i, lst in enumerate(form.get("lists", [])):
        for j, _ in enumerate(lst["rows"]):
            if (i, j) == (li, ri):
                return n
            n += 1
    return None


def base_type(cell):
    return (cell or "").split(" ")[0]


VISIBLE_SIMPLE = {"text", "integer", "decimal", "date", "time", "dateTime", "geopoint", "barcode", "note"}


class Plan:
    """what an operator planted and what the diagnosis must contain"""

    def __init__(self, form, tokens=(), anyof=(), row=None, sheet="survey", stable=True, depth=0, xlsx=False, note="", rows_alt=()):
        self.form = form
        self.tokens = list(tokens)      # every one must occur in the message
        self.anyof = list(anyof)        # at least one must occur (if non-empty)
        self.row = row                  # sheet row of the planted defect, if it is confined to one row
        self.sheet = sheet
        self.stable = stable            # message shape must not depend on the site
        self.depth = depth
        self.xlsx = xlsx                # needs a file container (duplicate headers cannot be written in a dict)
        self.note = note
        self.rows_alt = list(rows_alt)  # other rows the diagnosis may cite instead (e.g. the survey row that uses a bad choice)


# ============================================================ operators
# Each operator: (form copy, rnd) -> Plan | None (not applicable).  The form passed in is already a private deep copy.

TOK = "zqx7"  # planted tokens start with this unlikely prefix


def _pick(r, xs):
    return xs[r.randrange(len(xs))] if xs else None


def _containers(form):
    return [(n, a) for n, a in all_nodes(form) if n["k"] in ("g", "r")]


def _questions(form, pred=lambda n: True):
    return [(n, a) for n, a in all_nodes(form) if n["k"] == "q" and pred(n)]


def _children_list(form, anc):
    return anc[-1]["ch"] if anc else form["nodes"]


def _referenced(form, name):
    """is `name` used by a ${...} reference anywhere in the workbook?"""
    needles = ("${%s}" % name, "#%s}" % name)
    return any(any(nd in s_ for nd in needles) for s_ in common.all_strings(form))


def op_extra_end(form, r):
    # an `end` row with nothing to close (top level) or closing the wrong kind (inside a container)
    sites = [(None, ())] + [(n, a) for n, a in _containers(form)]
    n, anc = _pick(r, sites)
    if n is None:
        kind = r.choice(["end group", "end repeat"])
        pos = r.randrange(len(form["nodes"]) + 1)
        raw = {"k": "x", "c": {"type": kind}}
        form["nodes"].insert(pos, raw)
        d = 0
    else:
        kind = "end repeat" if n["k"] == "g" else "end group"
        pos = r.randrange(len(n["ch"]) + 1)
        raw = {"k": "x", "c": {"type": kind}}
        n["ch"].insert(pos, raw)
        d = len(anc) + 1
    return Plan(form, tokens=["Unmatched end statement"], row=rows_of(form)[id(raw)][0], depth=d, stable=False)


def op_missing_end(form, r):
    c = _pick(r, _containers(form))
    if not c:
        return None
    n, anc = c
    n["end"] = {}
    # the rows that follow are re-parented, which may legitimately trip another check first: only rejection is demanded
    return Plan(form, depth=len(anc), stable=False)


def op_mismatched_end(form, r):
    c = _pick(r, _containers(form))
    if not c:
        return None
    n, anc = c
    n["end"] = {"type": "end repeat" if n["k"] == "g" else "end group"}
    return Plan(form, tokens=["Unmatched end statement"], row=rows_of(form)[id(n)][1], depth=len(anc), stable=False)


def op_dup_sibling(form, r):
    cands = []
    for n, anc in all_nodes(form):
        if n["k"] == "x" or "name" not in n["c"] or _referenced(form, n["c"]["name"]):
            continue
        sibs = [s for s in _children_list(form, anc) if s is not n and s["k"] != "x" and "name" in s["c"]]
        if sibs:
            cands.append((n, anc, sibs))
    if not cands:
        return None
    n, anc, sibs = _pick(r, cands)
    other = _pick(r, sibs)
    nm = other["c"]["name"]
    n["c"]["name"] = nm.upper() if r.random() < 0.3 and nm.upper() != nm else nm
    return Plan(form, tokens=[other["c"]["name"] if n["c"]["name"] == nm else n["c"]["name"]], depth=len(anc), stable=False)


def op_invalid_name(form, r):
    c = _pick(r, [(n, a) for n, a in all_nodes(form) if n["k"] != "x" and "name" in n["c"] and base_type(n["c"].get("type")) != "audit"
                  and not _referenced(form, n["c"]["name"])])
    if not c:
        return None
    n, anc = c
    bad = r.choice([f"9{TOK}", f"{TOK} b", f"{TOK}$", f"-{TOK}", f"{TOK}/x", f".{TOK}", f"{TOK}(1)", f"{TOK}À-Ö]1", f"{TOK}]", f"{TOK}×", f"÷{TOK}"])
    n["c"]["name"] = bad
    return Plan(form, tokens=[common.survey_clean(bad)], row=rows_of(form)[id(n)][0], depth=len(anc))


def op_missing_name(form, r):
    c = _pick(r, [(n, a) for n, a in all_nodes(form) if n["k"] != "x" and "name" in n["c"]
                  and base_type(n["c"].get("type")) not in ("note", "audit") and n["c"].get("type") and not _referenced(form, n["c"]["name"])])
    if not c:
        return None
    n, anc = c
    del n["c"]["name"]
    return Plan(form, tokens=["no name"], row=rows_of(form)[id(n)][0], depth=len(anc))


def op_missing_type(form, r):
    c = _pick(r, _questions(form, lambda n: "name" in n["c"]))
    if not c or sum(1 for n, _ in all_nodes(form) if n["k"] in ("g", "r") or n["c"].get("type")) < 2:
        return None
    n, anc = c
    del n["c"]["type"]
    return Plan(form, tokens=["no type"], row=rows_of(form)[id(n)][0], depth=len(anc), stable=False)


def op_unknown_type(form, r):
    c = _pick(r, _questions(form, lambda n: base_type(n["c"].get("type")) in VISIBLE_SIMPLE))
    if not c:
        return None
    n, anc = c
    bad = r.choice([f"{TOK}text", f"selct_{TOK} l1", f"{TOK}", f"integer{TOK}", f"begin {TOK}", f"integer osm {TOK}", f"{TOK}osm l1", f"osm l1 and {TOK}"])
    n["c"]["type"] = bad
    return Plan(form, tokens=[bad], depth=len(anc))


REF_CELLS = ["relevant", "constraint", "calculation", "required", "readonly", "label", "hint", "constraint_message", "required_message",
             "default", "choice_filter", "guidance_hint", "bind::custom", "instance::custom"]


def _plant_ref(form, r, ref_text):
    """put `ref_text` into a reference-bearing cell of some row; -> (node, anc, column) or None"""
    cands = _questions(form, lambda n: base_type(n["c"].get("type")) in VISIBLE_SIMPLE and "name" in n["c"]) + \
        [(n, a) for n, a in _containers(form)]
    c = _pick(r, cands)
    if not c:
        return None
    n, anc = c
    if n["k"] == "q":
        col = r.choice(REF_CELLS[:-1] if base_type(n["c"]["type"]) != "note" else ["relevant", "label", "hint", "required"])
        if col == "choice_filter":
            col = "relevant"
        if col == "guidance_hint" and not any(k.split("::")[0] in ("label", "hint") for k in n["c"]):
            col = "relevant"
    else:
        col = r.choice(["relevant", "label"] + (["repeat_count"] if n["k"] == "r" else []))
    # translated columns: replace every variant of the column
    keys = [k for k in n["c"] if k == col or k.startswith(col + "::")] if col in ("label", "hint", "guidance_hint", "constraint_message", "required_message") else [col]
    if not keys:
        keys = [col]
    for k in keys:
        if col in ("relevant", "constraint", "calculation", "required", "readonly", "choice_filter", "repeat_count", "bind::custom"):
            n["c"][k] = f"{ref_text} = 'v'" if col != "repeat_count" else f"{ref_text} + 1"
        elif col == "default":
            n["c"][k] = ref_text
        else:
            n["c"][k] = f"see {ref_text} now"
    if col == "constraint_message" and "constraint" not in n["c"]:
        n["c"]["constraint"] = ". != 'q'"
    if col == "calculation" and base_type(n["c"]["type"]) == "note":
        n["c"]["type"] = "text"
    return n, anc, col


def op_unknown_ref(form, r):
    tok = f"{TOK}_missing"
    root = form.get("settings", {}).get("name") or form.get("args", {}).get("form_name") or "data"
    if r.random() < 0.25 and not any(n["c"].get("name") == root for n, _ in all_nodes(form)):
        tok = root       # the form's own root is not a question: a reference to its name is a reference to nothing
    p = _plant_ref(form, r, "${%s}" % tok)
    if not p:
        return None
    n, anc, col = p
    return Plan(form, tokens=[tok], depth=len(anc), stable=False, note=col)


def op_unknown_ref_last_saved(form, r):
    tok = f"{TOK}_ls"
    p = _plant_ref(form, r, "${last-saved#%s}" % tok)
    if not p:
        return None
    n, anc, col = p
    return Plan(form, tokens=[tok], depth=len(anc), stable=False, note=col)


def op_ambiguous_ref(form, r):
    conts = _containers(form)
    if not conts:
        return None
    tok = f"{TOK}_twice"
    (a, aa) = _pick(r, conts)
    a["ch"].append({"k": "q", "c": {"type": "text", "name": tok, "label": "one"}})
    # the second copy lives in another section (or at top level)
    # 2..5 elements carry the name, each in a different section (or at top level)
    others = [c for c in conts if c[0] is not a]
    r.shuffle(others)
    copies = r.choice([1, 1, 2, 2, 3, 4])
    homes = [c[0]["ch"] for c in others[:copies]]
    if len(homes) < copies:
        homes.append(form["nodes"])
    for i, home in enumerate(homes):
        home.append({"k": "q", "c": {"type": "text", "name": tok, "label": f"copy {i + 2}"}})
    form["nodes"].append({"k": "q", "c": {"type": "text", "name": f"{TOK}_user", "label": "u", "relevant": "${%s} = 'x'" % tok}})
    return Plan(form, tokens=[tok], depth=len(aa) + 1, stable=False)


MALFORMED = ["${%s", "${ %s}", "${%s }", "${%s${b}}", "${%s b}", "${%s", "${%s}${", "${a${%s}"]


def op_malformed_ref(form, r):
    names = [n["c"]["name"] for n, _ in _questions(form, lambda n: "name" in n["c"])]
    if not names:
        return None
    bad = r.choice(MALFORMED) % r.choice(names)
    if form.get("osm") and r.random() < 0.5:
        # the osm sheet holds texts with references too
        row_i = r.randrange(len(form["osm"]))
        form["osm"][row_i]["label"] = f"tag {bad}"
        return Plan(form, tokens=["Reference expressions must only include question names"], anyof=["label"], depth=0, note="osm-sheet", stable=False)
    p = _plant_ref(form, r, bad)
    if not p:
        return None
    n, anc, col = p
    canon = {"relevant": "relevant", "constraint": "constraint", "calculation": "calculat", "required": "required", "readonly": "readonly"}.get(col, col.split("::")[-1])
    return Plan(form, tokens=["Reference expressions must only include question names"], anyof=[canon], row=rows_of(form)[id(n)][0],
                depth=len(anc), note=col)


def _selects(form, kinds=("select_one", "select_multiple", "rank")):
    out = []
    for n, a in _questions(form):
        t = n["c"].get("type", "").split(" ")
        if t[0] in kinds and len(t) >= 2 and "." not in t[1] and "${" not in t[1] and "search(" not in n["c"].get("appearance", ""):
            out.append((n, a))
    return out


def op_missing_choices_sheet(form, r):
    if not _selects(form):
        return None
    form.pop("lists", None)
    return Plan(form, tokens=["choices sheet"], stable=True)


def op_missing_list(form, r):
    c = _pick(r, _selects(form))
    if not c:
        return None
    n, anc = c
    t = n["c"]["type"].split(" ")
    t[1] = f"{TOK}_list"
    n["c"]["type"] = " ".join(t)
    return Plan(form, tokens=[f"{TOK}_list"], row=rows_of(form)[id(n)][0], depth=len(anc))


def op_choice_no_name(form, r):
    ls = [(i, j) for i, lst in enumerate(form.get("lists", [])) for j, _ in enumerate(lst["rows"])]
    if not ls:
        return None
    i, j = _pick(r, ls)
    del form["lists"][i]["rows"][j]["name"]
    if not any("name" in row for lst in form["lists"] for row in lst["rows"]):
        return None  # would remove the whole column: that is the missing-header operator
    return Plan(form, tokens=["name"], row=choice_row_number(form, i, j), sheet="choices", depth=1 if j else 0)


def op_dup_choice(form, r):
    ls = [i for i, lst in enumerate(form.get("lists", [])) if len(lst["rows"]) >= 1]
    if not ls or form.get("settings", {}).get("allow_choice_duplicates") in ("yes", "true", "True", "TRUE", "Yes", "YES", "true()"):
        return None
    i = _pick(r, ls)
    rows = form["lists"][i]["rows"]
    j = r.randrange(len(rows))
    dup = copy.deepcopy(rows[j])
    if r.random() < 0.4:
        # the duplicate is one of those rows that also draw the "should have a label" warning
        dup = {"name": dup["name"]}
        if r.random() < 0.5:
            dup["image"] = "dup.png"
    rows.insert(r.randrange(len(rows) + 1), dup) if r.random() < 0.5 else rows.append(dup)
    same = [k for k, rw in enumerate(rows) if rw.get("name") == dup["name"]]
    return Plan(form, tokens=["duplicate"], row=choice_row_number(form, i, same[1]), sheet="choices", depth=1)


def op_calc_no_calculation(form, r):
    c = _pick(r, _questions(form, lambda n: base_type(n["c"].get("type")) in VISIBLE_SIMPLE))
    if not c:
        return None
    n, anc = c
    nm = n["c"].get("name", f"{TOK}c")
    n["c"] = {"type": "calculate", "name": nm}
    return Plan(form, tokens=["Missing calculation"], row=rows_of(form)[id(n)][0], depth=len(anc))


# parameters: (row type cell, parameters cell, tokens)
BAD_PARAMS = [
    ("text", f"{TOK}=1", [TOK]), ("text", "rows", ["parameter1=value"]), ("text", f"rows={TOK}", ["rows"]),
    ("image", f"{TOK}=1", [TOK]), ("image", f"max-pixels={TOK}", ["max-pixels"]), ("image", "max-pixels", ["parameter1=value"]),
    ("audio", f"quality={TOK}", ["quality"]), ("audio", f"{TOK}=low", [TOK]),
    ("background-audio", f"quality={TOK}", ["quality"]),
    ("geopoint", f"allow-mock-accuracy={TOK}", ["allow-mock-accuracy"]), ("geopoint", f"capture-accuracy={TOK}", ["capture-accuracy"]),
    ("geopoint", f"warning-accuracy={TOK}", ["warning-accuracy"]), ("geotrace", "capture-accuracy=2", ["capture-accuracy"]),
    ("geoshape", f"{TOK}=2", [TOK]),
    ("range", f"start={TOK}", ["start"]), ("range", f"{TOK}=3", [TOK]),
    ("select_one @L", f"randomize={TOK}", ["randomize"]), ("select_one @L", f"randomize=true seed={TOK}", ["seed"]),
    ("select_one @L", "seed=4", ["randomize"]), ("select_multiple @L", f"{TOK}=true", [TOK]), ("select_one @L", "value=a", ["value"]),
    ("select_one_from_file f.csv", "value=a b", ["value"]), ("select_one_from_file f.csv", "label=9$", ["label"]),
    ("audit", f"track-changes={TOK}", ["track-changes"]), ("audit", f"identify-user={TOK}", ["identify-user"]),
    ("audit", f"track-changes-reasons={TOK}", ["track-changes-reasons"]), ("audit", "location-priority=balanced", ["location"]),
    ("audit", f"location-priority={TOK} location-min-interval=1 location-max-age=2", ["location-priority"]),
    ("audit", "location-priority=balanced location-min-interval=x location-max-age=2", ["location-min-interval"]),
    ("audit", "location-priority=balanced location-min-interval=5 location-max-age=2", ["location-max-age"]),
    ("audit", f"{TOK}=1", [TOK]),
]


def op_bad_param(form, r):
    typ, par, toks = _pick(r, BAD_PARAMS)
    if "@L" in typ:
        ls = [lst["name"] for lst in form.get("lists", [])]
        if not ls:
            return None
        typ = typ.replace("@L", r.choice(ls))
    node = {"k": "q", "c": {"type": typ, "name": f"{TOK}p", "label": "P", "parameters": par}}
    if typ == "audit":
        if any(base_type(n["c"].get("type")) == "audit" for n, _ in all_nodes(form)):
            return None
        node["c"] = {"type": "audit", "name": "audit", "parameters": par}
        form["nodes"].append(node)
        anc = ()
    elif typ == "background-audio":
        node["c"].pop("label")
        form["nodes"].append(node)
        anc = ()
    else:
        sites = [(None, ())] + _containers(form)
        cont, canc = _pick(r, sites)
        if cont is None:
            form["nodes"].insert(r.randrange(len(form["nodes"]) + 1), node)
            anc = ()
        else:
            if cont["c"].get("appearance", "").startswith("table-list"):
                return None
            cont["ch"].insert(r.randrange(len(cont["ch"]) + 1), node)
            anc = (*canc, cont)
    return Plan(form, tokens=toks, row=rows_of(form)[id(node)][0], depth=len(anc), note=f"{base_type(typ)}:{par.replace(TOK, '*')}")


def op_list_name_contains_reference(form, r):
    """a list name that merely contains a ${reference} is not a select from a repeat: it names a list that does not exist"""
    named = [n for n, _ in _questions(form, lambda n: "name" in n["c"] and base_type(n["c"].get("type")) in VISIBLE_SIMPLE)]
    if not named:
        return None
    ref = "${%s}" % r.choice(named)["c"]["name"]
    lst = r.choice([f"{TOK}{ref}y", f"{ref}{TOK}", f"{TOK}{ref}", f"{ref}{ref}"])
    node = {"k": "q", "c": {"type": f"{r.choice(['select_one', 'select_multiple'])} {lst}", "name": f"{TOK}sel", "label": "S"}}
    form["nodes"].append(node)
    if not form.get("lists"):
        form["lists"] = [{"name": "zl", "rows": [{"name": "a", "label": "A"}]}]     # (without any list the diagnosis is about the missing sheet)
    return Plan(form, anyof=[lst, "List name", "list"], row=rows_of(form)[id(node)][0], stable=False)


def op_osm_tag_without_name(form, r):
    node = {"k": "q", "c": {"type": "osm ztags", "name": f"{TOK}osm", "label": "O"}}
    form["nodes"].append(node)
    rows = list(form.get("osm") or []) + [{"list_name": "ztags", "name": "building", "label": "B"}]
    rows += [{} for _ in range(r.choice([0, 0, 1, 2, 5]))]      # blank separator rows above the bad one: its row number counts them
    rows.append({"list_name": "ztags", "label": f"{TOK} no name"})
    form["osm"] = rows
    return Plan(form, tokens=["name"], anyof=["osm", "tag", "Tag"], sheet="osm", stable=False, row=len(rows) + 1)


def op_entities_suffixed_header(form, r):
    """an entities column with a language suffix, as the label columns of a translated survey have: not a supported column"""
    ent = form.get("entities")
    if not ent:
        form["entities"] = ent = [{"list_name": f"{TOK}ds", "label": "'x'"}]
    col = r.choice([k for k in ent[0] if k in ("list_name", "dataset", "label", "entity_id")] or ["label"])
    suffix = "::" + r.choice(["English (en)", "fr", "French (fr)"])
    new = col + suffix
    for row in ent:
        if col in row:
            row[new] = row.pop(col)
    # (the message may name the column by its canonical name -- list_name is an alias of dataset -- but it names the suffix as typed)
    return Plan(form, tokens=[suffix], sheet="entities", stable=False)


def op_dup_header(form, r):
    sheets = model.to_sheets(form)
    head = list(sheets["survey"][0])
    cands = [h for h in head if h not in ("type", "name")]
    if not cands:
        return None
    h = r.choice(cands)
    # the second copy may differ in surrounding spaces only (headers are trimmed), and every file container has to notice
    form["survey_header"] = [*head, h + r.choice(["", "", " ", "  "])]
    return Plan(form, tokens=["Duplicate column header", h], xlsx=r.choice(["xlsx", "xlsx", "csv", "md"]))


ALIAS_PAIRS = [("label", "caption"), ("name", "value"), ("relevant", "relevance"), ("calculation", "calculate"), ("readonly", "read_only"),
               ("constraint_message", "constraining message"), ("repeat_count", "count")]


def op_alias_clash(form, r):
    sheets = model.to_sheets(form)
    head = list(sheets["survey"][0])
    pairs = [(a, b) for a, b in ALIAS_PAIRS if a in head]
    if not pairs:
        return None
    a, b = r.choice(pairs)
    users = [n for n, _ in all_nodes(form) if n["k"] != "x" and a in n["c"]]
    if not users:
        return None
    n = r.choice(users)
    n["c"][b] = n["c"][a] + " again"
    i = head.index(a)
    if r.random() < 0.5:
        head.insert(i + 1, b)
    else:
        head.insert(i, b)
    form["survey_header"] = head
    return Plan(form, anyof=[a, b], stable=False)


def op_missing_required_header(form, r):
    which = r.choice(["type", "choices-name"])
    if which == "type":
        for n, _ in all_nodes(form):
            n["c"].pop("type", None)
            n.pop("end", None)
        # begin/end rows get their type from flatten_rows; replace containers by raw rows
        def strip(ns):
            out = []
            for n in ns:
                if n["k"] in ("g", "r"):
                    out.append({"k": "x", "c": {k: v for k, v in n["c"].items() if k != "type"}})
                    out.extend(strip(n.get("ch", [])))
                else:
                    out.append({"k": "x", "c": dict(n["c"])})
            return out
        form["nodes"] = strip(form["nodes"])
        return Plan(form, tokens=["type"], stable=True)
    if not form.get("lists"):
        return None
    for lst in form["lists"]:
        for row in lst["rows"]:
            row.pop("name", None)
    return Plan(form, tokens=["name"], stable=True)


def op_instance_id_clash(form, r):
    kind = r.choice(["list-vs-external", "xml-vs-csv", "two-xml", "pulldata-vs-xml", "two-files-same-stem", "two-files-same-stem"])
    nodes = form["nodes"]
    tok = f"{TOK}_inst"
    if kind == "two-files-same-stem":
        # two selects that read different files with the same stem: one instance id, two sources
        a, b = r.sample([".csv", ".xml", ".geojson"], 2)
        cs = _containers(form)
        nodes.append({"k": "q", "c": {"type": r.choice(["select_one_from_file", "select_multiple_from_file"]) + f" {tok}{a}", "name": f"{TOK}_f1", "label": "F1"}})
        (r.choice(cs)[0]["ch"] if cs and r.random() < 0.6 else nodes).append(
            {"k": "q", "c": {"type": r.choice(["select_one_from_file", "select_multiple_from_file"]) + f" {tok}{b}", "name": f"{TOK}_f2", "label": "F2"}})
        return Plan(form, tokens=[tok], stable=False)
    if kind == "list-vs-external":
        sel = _selects(form, ("select_one", "select_multiple"))
        if not sel:
            return None
        n, _ = _pick(r, sel)
        ln = n["c"]["type"].split(" ")[1]
        nodes.append({"k": "q", "c": {"type": "xml-external", "name": ln}})
        return Plan(form, tokens=[ln], stable=False)
    if kind == "xml-vs-csv":
        nodes.append({"k": "q", "c": {"type": "xml-external", "name": tok}})
        nodes.append({"k": "q", "c": {"type": "csv-external", "name": tok}})
    elif kind == "two-xml":
        cs = _containers(form)
        nodes.append({"k": "q", "c": {"type": "xml-external", "name": tok}})
        (r.choice(cs)[0]["ch"] if cs and r.random() < 0.6 else nodes).append({"k": "q", "c": {"type": "xml-external", "name": tok}})
    else:
        nodes.append({"k": "q", "c": {"type": "xml-external", "name": tok}})
        nodes.append({"k": "q", "c": {"type": "calculate", "name": f"{TOK}_pd", "calculation": f"pulldata('{tok}', 'a', 'b', 'c')"}})
    return Plan(form, tokens=[tok], stable=False)


def op_dup_section(form, r):
    cs = _containers(form)
    if len(cs) < 2:
        return None
    (a, aa), (b, ba) = r.sample(cs, 2)
    if _children_list(form, aa) is _children_list(form, ba) or _referenced(form, b["c"]["name"]):
        return None  # siblings: that is the duplicate-sibling operator
    b["c"]["name"] = a["c"]["name"]
    return Plan(form, tokens=[a["c"]["name"]], depth=len(ba), stable=False)


def op_missing_survey(form, r):
    form["survey_absent"] = True
    return Plan(form, tokens=["survey"], stable=True)


def op_or_other_with_filter(form, r):
    sel = [(n, a) for n, a in _selects(form, ("select_one", "select_multiple")) if not (a and a[-1]["c"].get("appearance", "").startswith("table-list"))]
    c = _pick(r, sel)
    if not c:
        return None
    n, anc = c
    t = n["c"]["type"].split(" ")
    n["c"]["type"] = f"{t[0]} {t[1]} or_other"
    n["c"]["choice_filter"] = "name != 'zz'"
    n["c"].pop("parameters", None)
    return Plan(form, tokens=["or_other"], row=rows_of(form)[id(n)][0], depth=len(anc))


def op_space_in_multi_choice(form, r):
    sel = _selects(form, ("select_multiple",))
    c = _pick(r, sel)
    if not c:
        return None
    n, anc = c
    ln = n["c"]["type"].split(" ")[1]
    lst = next((x for x in form.get("lists", []) if x["name"] == ln), None)
    if not lst:
        return None
    j = r.randrange(len(lst["rows"]))
    bad = f"{TOK} b"
    lst["rows"][j]["name"] = bad
    li = form["lists"].index(lst)
    rws = rows_of(form)
    users = [rws[id(m)][0] for m, _ in _selects(form, ("select_multiple",)) if m["c"]["type"].split(" ")[1] == ln]
    return Plan(form, tokens=[bad, ln], row=choice_row_number(form, li, j), sheet="choices", depth=len(anc), note="space-in-choice", rows_alt=users)


def op_wrong_file_ext(form, r):
    cmd = r.choice(["select_one_from_file", "select_multiple_from_file"])
    bad = r.choice([f"{TOK}.txt", f"{TOK}.xlsx", f"{TOK}"])
    node = {"k": "q", "c": {"type": f"{cmd} {bad}", "name": f"{TOK}f", "label": "F"}}
    sites = [(None, ())] + [c for c in _containers(form) if not c[0]["c"].get("appearance", "").startswith("table-list")]
    cont, canc = _pick(r, sites)
    (form["nodes"] if cont is None else cont["ch"]).append(node)
    return Plan(form, tokens=[cmd], row=rows_of(form)[id(node)][0], depth=0 if cont is None else len(canc) + 1)


def op_audit_with_name(form, r):
    if any(base_type(n["c"].get("type")) == "audit" for n, _ in all_nodes(form)):
        return None
    node = {"k": "q", "c": {"type": "audit", "name": f"{TOK}a"}}
    form["nodes"].insert(r.randrange(len(form["nodes"]) + 1), node)
    return Plan(form, tokens=["audit"], row=rows_of(form)[id(node)][0])


def op_big_image_no_image(form, r):
    c = _pick(r, _questions(form, lambda n: base_type(n["c"].get("type")) in VISIBLE_SIMPLE and "name" in n["c"]
                            and not any(k.split("::")[0] in ("image", "big-image") for k in n["c"])
                            and any(k.split("::")[0] == "label" for k in n["c"]) and "calculation" not in n["c"]))
    if not c:
        return None
    n, anc = c
    n["c"]["big-image"] = "big.png"
    return Plan(form, tokens=[n["c"]["name"], "big-image"], depth=len(anc))


def op_no_label(form, r):
    c = _pick(r, _questions(form, lambda n: base_type(n["c"].get("type")) in (VISIBLE_SIMPLE - {"note"}) and "name" in n["c"]))
    if not c:
        return None
    n, anc = c
    keep_guidance = r.random() < 0.4
    for k in list(n["c"]):
        b = k.split("::")[0]
        if b in ("label", "hint", "image", "audio", "video", "big-image", "calculation", "default", "trigger") or (b == "guidance_hint" and not keep_guidance):
            del n["c"][k]
    if keep_guidance:
        n["c"]["guidance_hint"] = "only guidance"
    return Plan(form, tokens=[n["c"]["name"]], depth=len(anc), stable=False)


def op_external_no_sheet(form, r):
    if form.get("ext"):
        return None
    node = {"k": "q", "c": {"type": f"select_one_external {TOK}e", "name": f"{TOK}x", "label": "X", "choice_filter": "a = 'b'"}}
    form["nodes"].append(node)
    return Plan(form, tokens=["external_choices"])


def op_external_unknown_list(form, r):
    form["ext"] = [{"list_name": "known", "name": "a", "label": "A"}]
    node = {"k": "q", "c": {"type": f"select_one_external {TOK}e", "name": f"{TOK}x", "label": "X", "choice_filter": "a = 'b'"}}
    form["nodes"].append(node)
    return Plan(form, tokens=[f"{TOK}e"], row=rows_of(form)[id(node)][0])


def op_bad_trigger(form, r):
    kind = r.choice(["not-a-ref", "missing", "hidden-source", "bg-no-trigger", "bg-with-calc", "several-refs", "several-refs", "no-control-source", "group-source"])
    vis = [n for n, _ in _questions(form, lambda n: base_type(n["c"].get("type")) in VISIBLE_SIMPLE and "name" in n["c"]
                               and any(k.split("::")[0] == "label" for k in n["c"]) and "calculation" not in n["c"])]
    tok = f"{TOK}_t"
    node = {"k": "q", "c": {"type": "text", "name": f"{TOK}tq", "label": "T", "calculation": "1 + 1"}}
    toks = []
    if kind == "not-a-ref":
        node["c"]["trigger"] = tok
        toks = ["trigger"]
    elif kind == "missing":
        node["c"]["trigger"] = "${%s}" % tok
        toks = [tok]
    elif kind == "hidden-source":
        form["nodes"].append({"k": "q", "c": {"type": "calculate", "name": tok, "calculation": "1"}})
        node["c"]["trigger"] = "${%s}" % tok
        toks = [tok]
    elif kind == "no-control-source":
        # hidden / metadata rows have no control in which the action could be nested
        form["nodes"].append({"k": "q", "c": {"type": r.choice(["hidden", "start", "today", "deviceid", "username"]), "name": tok}})
        node["c"]["trigger"] = "${%s}" % tok
        toks = [tok]
    elif kind == "group-source":
        form["nodes"].append({"k": r.choice(["g", "r"]), "c": {"name": tok, "label": "G"}, "ch": [{"k": "q", "c": {"type": "text", "name": f"{TOK}in", "label": "I"}}]})
        node["c"]["trigger"] = "${%s}" % tok
        toks = [tok]
    elif kind == "several-refs":
        # only one triggering question is supported: a list of references must not silently lose the calculation
        if len(vis) < 2:
            return None
        a, b = r.sample(vis, 2)
        node["c"]["trigger"] = "${%s}%s${%s}" % (a["c"]["name"], r.choice([", ", ",", " ", " or "]), b["c"]["name"])
        toks = ["trigger"]
    elif kind == "bg-no-trigger":
        node["c"] = {"type": "background-geopoint", "name": f"{TOK}tq"}
        toks = ["background-geopoint", "trigger"]
    else:
        if not vis:
            return None
        node["c"] = {"type": "background-geopoint", "name": f"{TOK}tq", "trigger": "${%s}" % r.choice(vis)["c"]["name"], "calculation": "1"}
        toks = ["background-geopoint", "calculation"]
    form["nodes"].append(node)
    row = rows_of(form)[id(node)][0]
    return Plan(form, tokens=toks, row=row if kind.startswith("bg") else None, stable=False, note=kind)


def op_search_misuse(form, r):
    kind = r.choice(["from-file", "shared-list"])
    if kind == "from-file":
        node = {"k": "q", "c": {"type": "select_one_from_file f.csv", "name": f"{TOK}s", "label": "S", "appearance": "search('f')"}}
        form["nodes"].append(node)
        return Plan(form, tokens=["search"], stable=False, note=kind)
    sel = _selects(form, ("select_one",))
    c = _pick(r, sel)
    if not c:
        return None
    n, anc = c
    ln = n["c"]["type"].split(" ")[1]
    node = {"k": "q", "c": {"type": f"select_one {ln}", "name": f"{TOK}s", "label": "S", "appearance": "search('f')"}}
    form["nodes"].append(node)
    return Plan(form, tokens=["search"], anyof=[ln, n["c"]["name"], f"{TOK}s"], stable=False, note=kind)


def op_omit_instance_id_with_key(form, r):
    s = form.setdefault("settings", {})
    s["public_key"] = "MIIBIjANBgkq"
    s["omit_instanceID"] = r.choice(["yes", "true", "TRUE"])
    return Plan(form, tokens=["instanceID"])


def op_save_to_problem(form, r):
    kind = r.choice(["no-sheet", "in-repeat", "on-group", "on-loop", "bad-name"])
    if kind == "no-sheet":
        if form.get("entities"):
            return None
        c = _pick(r, _questions(form, lambda n: base_type(n["c"].get("type")) in VISIBLE_SIMPLE))
        if not c:
            return None
        n, anc = c
        n["c"]["save_to"] = f"{TOK}prop"
        return Plan(form, tokens=["save_to", "entities"], row=rows_of(form)[id(n)][0], depth=len(anc), note=kind)
    if not form.get("entities"):
        form["entities"] = [{"dataset": "trees", "label": "'x'"}]
    if kind == "in-repeat":
        reps = [(n, a) for n, a in _containers(form) if n["k"] == "r" or any(x["k"] == "r" for x in a)]
        reps = [(n, a) for n, a in reps if not n["c"].get("appearance", "").startswith("table-list")]
        c = _pick(r, reps)
        if not c:
            return None
        n, anc = c
        node = {"k": "q", "c": {"type": "text", "name": f"{TOK}sv", "label": "S", "save_to": f"{TOK}prop"}}
        n["ch"].append(node)
        return Plan(form, tokens=["repeat"], row=rows_of(form)[id(node)][0], depth=len(anc) + 1, note=kind)
    if kind == "on-loop":
        if not form.get("lists"):
            return None
        # a loop row carries its list after the container word
        node = {"k": "x", "c": {"type": r.choice(["begin loop over ", "begin lgroup over ", "begin_loop over "]) + form["lists"][0]["name"],
                                "name": f"{TOK}lp", "label": "L", "save_to": f"{TOK}prop"}}
        form["nodes"].append(node)
        form["nodes"].append({"k": "q", "c": {"type": "text", "name": f"{TOK}li", "label": "i"}})
        form["nodes"].append({"k": "x", "c": {"type": "end loop"}})
        return Plan(form, anyof=["Groups and repeats", "repeat", "loop"], row=rows_of(form)[id(node)][0], depth=0, note=kind)
    if kind == "on-group":
        c = _pick(r, _containers(form))
        if not c:
            return None
        n, anc = c
        n["c"]["save_to"] = f"{TOK}prop"
        return Plan(form, anyof=["Groups and repeats", "repeat"], row=rows_of(form)[id(n)][0], depth=len(anc), note=kind)
    c = _pick(r, [(n, a) for n, a in _questions(form, lambda n: base_type(n["c"].get("type")) in VISIBLE_SIMPLE)
                  if not any(x["k"] == "r" for x in a)])
    if not c:
        return None
    n, anc = c
    bad = r.choice(["name", "label", f"__{TOK}", f"9{TOK}", f"{TOK} x"])
    n["c"]["save_to"] = bad
    return Plan(form, tokens=["save_to", bad], row=rows_of(form)[id(n)][0], depth=len(anc), note=kind, stable=False)


def op_table_list_mismatch(form, r):
    if r.random() < 0.35:
        # the first select of a table-list group takes its choices from a file: there is no list to build the header row from
        fn = r.choice(["places.csv", "towns.xml", "areas.geojson"])
        g = {"k": "g", "c": {"name": f"{TOK}tl", "label": "TL", "appearance": "table-list"}, "ch": [
            {"k": "q", "c": {"type": r.choice(["select_one_from_file ", "select_multiple_from_file "]) + fn, "name": f"{TOK}t1", "label": "A"}}]}
        form["nodes"].append(g)
        return Plan(form, tokens=["table-list", fn], row=rows_of(form)[id(g["ch"][0])][0], depth=1, note="from-file")
    if len(form.get("lists", [])) < 2:
        return None
    l1, l2 = form["lists"][0]["name"], form["lists"][1]["name"]
    g = {"k": "g", "c": {"name": f"{TOK}tl", "label": "TL", "appearance": "table-list"}, "ch": [
        {"k": "q", "c": {"type": f"select_one {l1}", "name": f"{TOK}t1", "label": "A"}},
        {"k": "q", "c": {"type": f"select_one {l2}", "name": f"{TOK}t2", "label": "B"}}]}
    form["nodes"].append(g)
    return Plan(form, tokens=[l1, l2], row=rows_of(form)[id(g["ch"][1])][0], depth=1)


def op_loop_problems(form, r):
    node = {"k": "x", "c": {"type": r.choice([f"begin loop over {TOK}l", "begin loop"]), "name": f"{TOK}lp", "label": "L"}}
    form["nodes"].append(node)
    form["nodes"].append({"k": "q", "c": {"type": "text", "name": f"{TOK}li", "label": "i"}})
    form["nodes"].append({"k": "x", "c": {"type": "end loop"}})
    return Plan(form, anyof=[f"{TOK}l", "loop"], row=rows_of(form)[id(node)][0], stable=False)


def op_bad_attribute_header(form, r):
    kind = r.choice(["survey", "settings"])
    if kind == "settings":
        key = r.choice([f"attribute::9{TOK}", f"attribute::{TOK} b", f"attribute::{TOK}:x", "attribute"])
        form.setdefault("settings", {})[key] = "v"
        if key == "attribute":
            return Plan(form, tokens=["attribute"], stable=False, note="settings-bare")
        return Plan(form, tokens=[key.split("::")[1]], stable=False, note="settings")
    c = _pick(r, _questions(form, lambda n: base_type(n["c"].get("type")) in VISIBLE_SIMPLE and any(k.split("::")[0] == "label" for k in n["c"])
                            and "calculation" not in n["c"] and "trigger" not in n["c"]))
    if not c:
        return None
    n, anc = c
    key = r.choice([f"bind::9{TOK}", f"body::{TOK} b", f"instance::{TOK}:x", f"bind::{TOK}:y", f"body::a:{TOK}:c"])
    n["c"][key] = "v"
    return Plan(form, tokens=[key.split("::")[1]], depth=len(anc), stable=False, note=key.split("::")[0])


def op_illegal_character(form, r):
    c = _pick(r, _questions(form, lambda n: base_type(n["c"].get("type")) in VISIBLE_SIMPLE and "label" in n["c"]
                            and "calculation" not in n["c"] and "trigger" not in n["c"]))
    if not c:
        return None
    n, anc = c
    ch = r.choice(["\x01", "\x0b", "\ufffe", "\x1f"])
    with_ref = r.random() < 0.4
    names = [m["c"]["name"] for m, _ in _questions(form, lambda m: "name" in m["c"] and base_type(m["c"].get("type")) in VISIBLE_SIMPLE) if m is not n]
    text = f"bad{ch}char" + (" ${%s}" % r.choice(names) if with_ref and names else "")
    for k in [k for k in n["c"] if k.split("::")[0] == "label"]:   # every language variant: an unsuffixed label may be shadowed
        n["c"][k] = text
    return Plan(form, anyof=[f"U+{ord(ch):04X}", "cannot be written as XML"], depth=len(anc), stable=False, note="with-ref" if with_ref and names else "plain")


OPS = {
    "bad-attribute-header": op_bad_attribute_header, "illegal-character": op_illegal_character,
    "extra-end": op_extra_end, "missing-end": op_missing_end, "mismatched-end": op_mismatched_end, "dup-sibling": op_dup_sibling,
    "invalid-name": op_invalid_name, "missing-name": op_missing_name, "missing-type": op_missing_type, "unknown-type": op_unknown_type,
    "unknown-ref": op_unknown_ref, "unknown-ref-last-saved": op_unknown_ref_last_saved, "ambiguous-ref": op_ambiguous_ref,
    "malformed-ref": op_malformed_ref, "missing-choices-sheet": op_missing_choices_sheet, "missing-list": op_missing_list,
    "choice-no-name": op_choice_no_name, "dup-choice": op_dup_choice, "calc-no-calculation": op_calc_no_calculation,
    "bad-param": op_bad_param, "dup-header": op_dup_header, "alias-clash": op_alias_clash,
    "missing-required-header": op_missing_required_header, "instance-id-clash": op_instance_id_clash, "dup-section": op_dup_section,
    "missing-survey": op_missing_survey, "or-other-with-filter": op_or_other_with_filter,
    "space-in-multi-choice": op_space_in_multi_choice, "wrong-file-ext": op_wrong_file_ext, "audit-with-name": op_audit_with_name,
    "big-image-no-image": op_big_image_no_image, "no-label": op_no_label, "external-no-sheet": op_external_no_sheet,
    "external-unknown-list": op_external_unknown_list, "bad-trigger": op_bad_trigger, "list-name-contains-reference": op_list_name_contains_reference, "osm-tag-without-name": op_osm_tag_without_name, "entities-suffixed-header": op_entities_suffixed_header, "search-misuse": op_search_misuse,
    "omit-instanceid-with-key": op_omit_instance_id_with_key, "save-to-problem": op_save_to_problem,
    "table-list-mismatch": op_table_list_mismatch, "loop-problems": op_loop_problems,
}
OP_NAMES = sorted(OPS)
REQUIRED_LABELS = ["op:" + k for k in OP_NAMES] + ["soup:reached-row-loop", "soup:ok", "soup:rejected", "near-valid:ok", "near-valid:rejected", "junk:rejected"]

# the small form on which every operator is also applied, for the shape cross-check
SHALLOW = {
    "nodes": [
        {"k": "q", "c": {"type": "text", "name": "s1", "label": "One", "hint": "h"}},
        {"k": "q", "c": {"type": "select_one sl", "name": "s2", "label": "Two"}},
        {"k": "q", "c": {"type": "select_multiple sl", "name": "s3", "label": "Three"}},
        {"k": "g", "c": {"name": "sg", "label": "G"}, "ch": [{"k": "q", "c": {"type": "integer", "name": "s4", "label": "Four"}}]},
        {"k": "r", "c": {"name": "sr", "label": "R"}, "ch": [{"k": "q", "c": {"type": "text", "name": "s5", "label": "Five"}}]},
    ],
    "lists": [{"name": "sl", "rows": [{"name": "a", "label": "A"}, {"name": "b", "label": "B"}]},
              {"name": "sl2", "rows": [{"name": "a", "label": "A"}]}],
    "args": {},
}


# operators whose diagnosis does not come from the text-cleaning pass (with clean_text_values=no the reference-syntax pass is skipped as well)
RAW_OK = {"choice-no-name", "dup-choice", "missing-list", "dup-sibling", "missing-name", "missing-type", "unknown-type", "extra-end", "mismatched-end",
          "calc-no-calculation", "bad-param", "space-in-multi-choice", "no-label"}

# ============================================================ generator


@st.composite
def _cases(draw):
    which = draw(st.integers(0, 10))
    if which < 7:
        prof = dict(gen.PROFILES["broad"], max_depth=4, p_empty_container=0.06, p_group=0.22, p_repeat=0.18, p_blank_row=0.12, text="plain", text_ctl=False,
                    p_table_list=0.03, p_params=0.4, p_search=0.0, p_entities=0.1, settings="some", p_extra_sheets=0.0, p_osm=0.05, p_osm_self=0.3,
                    p_extra_cols=0.3, extra_col_names=["fields", "self", "kwargs", "type", "e1", "media", "control", "bind"])
        g = gen.G(draw, prof)
        form = gen.build_form(draw, prof, g=g)
        op = g.pick(OP_NAMES)
        if op in RAW_OK and g.p("_", 0.3):
            # documented switch: cells taken as typed; the row a diagnosis cites must not depend on it
            form.setdefault("settings", {})["clean_text_values"] = g.pick(["no", "false"])
        return {"form": form, "spec": {"op": op, "seed": g.integer(0, 65535)}}
    if which == 7:
        return {"soup": build_soup(draw)}
    if which == 10:
        return {"junk": build_junk(draw)}
    return {"soup": build_near_valid(draw)}


MAGIC = [b"PK\x03\x04", b"\xd0\xcf\x11\xe0\xa1\xb1\x1a\xe1", b"\xef\xbb\xbf", b"\xff\xfe", b"<?xml", b"%PDF-", b"\x00\x00"]
TEXTY = ["| survey |", "|  | type | name | label |", "| | text | q1 | Q |", "survey", ",type,name,label", ",text,q1,Q", "choices", ",list_name,name,label",
         "| choices |", "|", ",", "\n", "\r\n", "\t", "# comment", "| settings |", "| | form_id |", "||", "| | |", ",,,,", '"', '"a,b"', "é", "\x00", "|-|-|"]


def build_junk(draw):
    """bytes that are not a workbook, or only almost: the readers are tried in turn and must end in a result or the library's error"""
    g = gen.G(draw, {})
    kind = g.pick(["random", "magic", "texty", "texty", "texty"])
    if kind == "random":
        data = bytes(g.integer(0, 255) for _ in range(g.integer(0, 200)))
    elif kind == "magic":
        data = g.pick(MAGIC) + bytes(g.integer(0, 255) for _ in range(g.integer(0, 120))) + (bytes(600) if g.p("_", 0.3) else b"")
    else:
        data = "\n".join(g.pick(TEXTY) for _ in range(g.integer(1, 14))).encode("utf-8")
    return {"hex": data.hex(), "file_type": g.pick([None, None, ".xlsx", ".xls", ".md", ".csv", ".xlsm", ".txt", ""]),
            "as": g.pick(["bytes", "bytes", "str"])}


def build_near_valid(draw):
    """a valid generated workbook with 1-4 cells (or whole rows) overwritten from the vocabulary: reaches the code behind the header
    and type checks that pure soup rarely passes"""
    prof = dict(gen.PROFILES["broad"], max_depth=3, p_empty_container=0.06, p_blank_row=0.05, text="plain", text_ctl=False, p_params=0.5, p_entities=0.15,
                settings="some", p_external=0.15, p_table_list=0.05, p_or_other=0.15, p_osm=0.08, p_osm_self=0.4, p_extra_cols=0.3,
                extra_col_names=["fields", "self", "kwargs", "type", "e1", "media", "control", "bind"])
    g = gen.G(draw, prof)
    form = gen.build_form(draw, prof, g=g)
    if g.p("_", 0.1):
        form.setdefault("settings", {})["flat"] = g.pick(["yes", "true"])     # legacy switch: whatever it does, it must not crash
    wb = model.to_workbook_dict(form)
    P = lambda x: g._u16() < x * 65536  # noqa: E731
    for _ in range(g.integer(1, 4)):
        sheets_ = [k for k in ("survey", "survey", "survey", "choices", "settings", "entities") if wb.get(k)]
        if not sheets_:
            break
        sheet = g.pick(sheets_)
        rows = wb[sheet]
        if not rows:
            continue
        row = rows[g.integer(0, len(rows) - 1)]
        if sheet == "survey":
            what = g.integer(0, 9)
            if what == 0 and rows:
                rows.pop(g.integer(0, len(rows) - 1))          # drop a row (maybe a begin or an end)
            elif what == 1:
                rows.insert(g.integer(0, len(rows)), {"type": g.pick(S_TYPES), "name": g.pick(S_NAMES)})
            elif what == 2:
                row["type"] = g.pick(S_TYPES)
            elif what == 3:
                row["name"] = g.pick(S_NAMES)
            elif what == 4:
                row["parameters"] = g.pick(S_PARAMS)
            elif what == 5:
                row["appearance"] = g.pick(S_APPEAR)
            elif what == 6:
                row[g.pick(["relevant", "constraint", "calculation", "default", "choice_filter", "repeat_count", "required", "trigger"])] = g.pick(S_EXPR + S_REFS)
            elif what == 7:
                row[g.pick(S_COLS)] = g.pick(S_TEXT + S_REFS)
            elif what == 8 and row:
                row.pop(g.pick(sorted(row)), None)
            else:
                row[g.pick(["label", "hint", "label::en", "constraint_message", "guidance_hint", "image", "big-image"])] = g.pick(S_TEXT + S_REFS)
            if "survey_header" in wb:
                for k in row:
                    wb["survey_header"][0].setdefault(k, None)
        elif sheet == "choices":
            what = g.integer(0, 4)
            if what == 0:
                row.pop("name", None)
            elif what == 1:
                row["name"] = g.pick(["a b", "other", "", "1", "c1"])
            elif what == 2:
                row["list_name"] = g.pick(["l1", "zz", "", "l 1"])
            elif what == 3:
                row[g.pick(S_CCOLS)] = g.pick(S_TEXT + S_REFS[:5])
            elif row:
                row.pop(g.pick(sorted(row)), None)
            if "choices_header" in wb:
                for k in row:
                    wb["choices_header"][0].setdefault(k, None)
        elif sheet == "settings":
            k = g.pick(sorted(S_SETTINGS))
            row[k] = g.pick(S_SETTINGS[k])
            wb["settings_header"][0].setdefault(k, None)
        else:
            k = g.pick(["dataset", "label", "entity_id", "create_if", "update_if", "list_name"])
            if P(0.3):
                row.pop(k, None)
            else:
                row[k] = g.pick(S_EXPR + S_REFS + ["trees", "a.b", "__x"])
                wb["entities_header"][0].setdefault(k, None)
        for sh in ("survey", "choices", "settings", "entities"):
            if sh in wb:
                wb[sh] = [{k: v for k, v in r_.items() if str(v).strip() != ""} for r_ in wb[sh]]
    args = {k: v for k, v in form.get("args", {}).items() if k in ("form_name", "default_language")}
    return {"wb": wb, "args": args, "near_valid": True}


def strategy(tier):
    return _cases()


# ---------------------------------------------------------------- vocabulary soup

S_TYPES = ["text", "integer", "int", "decimal", "note", "date", "time", "dateTime", "datetime", "geopoint", "geotrace", "geoshape", "barcode",
           "acknowledge", "image", "photo", "audio", "video", "file", "range", "calculate", "hidden", "start", "end", "today", "deviceid",
           "username", "email", "phonenumber", "simserial", "subscriberid", "audit", "start-geopoint", "background-audio",
           "background-geopoint", "xml-external", "csv-external", "osm", "osm l1", "osm zz", "select_one l1", "select_one l2", "select_one",
           "select_one zz", "select_multiple l1", "select_multiple ${q1}", "select_one ${q2}", "select_one ${zz}", "rank l1", "rank",
           "select_one l1 or_other", "select_multiple l2 or_other", "select_one_from_file a.csv", "select_one_from_file a.xml",
           "select_multiple_from_file b.geojson", "select_one_from_file", "select_one_from_file a.txt", "select_one_external l1",
           "select_one_external e1", "select_one_external zz", "begin group", "end group", "begin repeat", "end repeat", "begin_group",
           "end_repeat", "begin loop over l1", "end loop", "begin", "end", "begin group x", "select one l1", "select all that apply l2",
           "select1 l1", "add select one prompt using l1", "trigger", "q1", "", " ", "Text", "TEXT", "select_one  l1", "select_one l1 l2",
           "select_one l1 or other", "rank l1 or_other", "begin table-list", "geopoint extra", "text ${q1}", "form_title", "form_id",
           "include", "cascading_select l1", "loop", "group", "repeat"]
S_NAMES = ["q1", "q2", "q3", "g1", "r1", "a", "b", "name", "label", "meta", "data", "instanceID", "q1", "Q1", "q_1", "q-1", "q.1", "1q", "q 1",
           "", "é", "_", "-", "x" * 40, "audit", "other", "q1_other", "r1_count", "__version__", "entity", "choices", "l1", "e1",
           "generated_note_name_2", "xml", "root", "item", "instance", "a:b:c", "foo:q", ":x", "odk:q", "x:", "jr:q1"]
S_REFS = ["${q1}", "${q2}", "${g1}", "${r1}", "${zz}", "${", "${}", "${q1", "${ q1 }", "${q1} ${q2}", "${last-saved#q1}", "${last-saved#zz}",
          "${last-saved#}", "$", "{q1}", "${q1}}", "${${q1}}", "${Q1}", "${q 1}", "${1q}"]
S_EXPR = [". > 1", ". = ${q1}", "${q1} = 'a'", "selected(${q2}, 'a')", "count(${r1}) > 1", "indexed-repeat(${q1}, ${r1}, 1)",
          "indexed-repeat(${q1})", "instance('l1')/root/item[name=${q1}]/label", "instance('zz')/root/item", "pulldata('a', 'b', 'c', ${q1})",
          "pulldata(${q1})", "pulldata('a'", "now()", "once(uuid())", "if(", "))", "'", "\"", "1 +", "../q1", "/data/q1", "current()/../q1",
          "position(..)", "jr:choice-name(${q1}, '${q2}')", "jr:itext('x')", "true()", "yes", "no", "TRUE", "maybe", "search('f')"]
S_PARAMS = ["rows=3", "rows=x", "max-pixels=100", "max-pixels=x", "app=com.a.b", "app=a", "quality=low", "quality=x", "start=1 end=5 step=1",
            "start=5 end=1", "step=0", "start=a", "randomize=true", "randomize=true seed=1", "randomize=x", "seed=1", "seed=${q1}",
            "randomize=true seed=${zz}", "value=a label=b", "value=", "=", "a", "a=b=c", "rows=3;", ";", ",", "rows = 3", "allow-mock-accuracy=true",
            "capture-accuracy=1", "warning-accuracy=x", "track-changes=true", "identify-user=true", "location-priority=balanced",
            "location-priority=balanced location-min-interval=1 location-max-age=2", "location-min-interval=-1", "ROWS=3", "rows=3 rows=4"]
S_APPEAR = ["minimal", "field-list", "table-list", "table-list minimal", "label", "list-nolabel", "search('f')", "search('f', 'matches', 'a', ${q1})",
            "search(", "quick", "multiline", "annotate", "w1", "${q1}", "hidden", "field-list table-list"]
S_TEXT = ["A", "hello", "ctl\x01char", "see ${q1}", "${zz}", "<b>", "&", "x" * 30, "1", "-", " ", "ünï"]
S_COLS = ["label", "hint", "relevant", "required", "constraint", "constraint_message", "required_message", "calculation", "default", "trigger",
          "choice_filter", "appearance", "parameters", "repeat_count", "readonly", "guidance_hint", "image", "audio", "video", "big-image",
          "label::en", "label::fr", "hint::en", "image::en", "save_to", "disabled", "bind::foo", "bind::jr:x", "bind::", "instance::a",
          "body::b", "body::accuracyThreshold", "media::image", "media::image::en", "label:en", "caption", "relevance", "calculate", "count",
          "value", "tag", "command", "bind", "control", "media", "label::", "::en", "bind::relevant", "bind::type", "intent", "autoplay",
          "sms_field", "instance", "body", "list_name", "name", "type"]
S_CCOLS = ["label", "label::en", "label::fr", "image", "audio", "video", "media::image", "extra", "e x", "1col", "name", "value", "filter",
           "e1::x", "odk:col", "a:b", "foo:bar", "label:en", "extra::a::b",
           "label::", "big-image", "list_name", "list name", "geometry", "xml", "itextId"]
S_SETTINGS = {"form_title": S_TEXT, "form_id": ["f1", "", "a b", "é"], "id_string": ["f2"], "version": ["1", "v2", ""], "name": ["root", "1x", "a b", "data", "a:b:c", "x:y", "a::b", ":r"],
              "default_language": ["en", "fr", "default", "zz", ""], "instance_name": S_EXPR, "submission_url": ["http://x/y?a=1&b=2", ""],
              "public_key": ["abc", ""], "auto_send": ["true", "x"], "auto_delete": ["false"], "style": ["pages", "x y"],
              "namespaces": ['a="http://a"', "a=b", "x", 'a="http://a" a="http://b"', "", "foo=", 'foo=""', "=http://x", 'a="http://a" b='], "attribute::a:b": ["1"], "attribute::x": ["<>"],
              "attribute::": ["v"], "instance_xmlns": ["http://q", ""], "omit_instanceID": ["yes", "no", "x"], "allow_choice_duplicates": ["yes", "no", "x"],
              "clean_text_values": ["yes", "no", "x"], "prefix": ["p"], "delimiter": ["d"], "sms_keyword": ["k"], "add_none_option": ["yes", "x"],
              "instance_id": ["uid", "x"], "title": ["T"], "unknown_setting": ["1"]}


def build_soup(draw):
    g = gen.G(draw, {})
    P = lambda x: g._u16() < x * 65536  # noqa: E731
    nrows = g.integer(0, 12)
    cols = ["type", "name"] + [g.pick(S_COLS) for _ in range(g.integer(0, 6))]
    cols = list(dict.fromkeys(cols))
    if P(0.05):
        cols.remove("type")
    if P(0.05) and "name" in cols:
        cols.remove("name")
    survey = []
    structured = P(0.6)   # mostly balanced begin/end so that rows deeper in the pipeline are reached
    open_stack = []
    for i in range(nrows):
        row = {}
        if P(0.06):
            survey.append(row)
            continue
        t = g.pick(S_TYPES)
        if structured:
            if t.startswith("end") or t in ("begin", "end"):
                t = "text"
            if t.startswith("begin"):
                kind = "repeat" if "repeat" in t else "group"
                t = "begin " + kind
                open_stack.append(kind)
        if "type" in cols and P(0.95):
            row["type"] = t
        if "name" in cols and P(0.9):
            row["name"] = g.pick(S_NAMES) if P(0.5) else f"q{i + 1}"
        for c in cols[2:]:
            if not P(0.45):
                continue
            b = c.split("::")[0].split(":")[0]
            if b in ("relevant", "constraint", "calculation", "required", "readonly", "default", "choice_filter", "repeat_count", "relevance",
                     "calculate", "count", "bind"):
                row[c] = g.pick(S_EXPR + S_REFS)
            elif b == "parameters":
                row[c] = g.pick(S_PARAMS)
            elif b == "appearance":
                row[c] = g.pick(S_APPEAR)
            elif b == "trigger":
                row[c] = g.pick(S_REFS + ["q1", ""])
            elif b in ("image", "audio", "video", "big-image", "media"):
                row[c] = g.pick(["a.png", "b.mp3", "${q1}.png", ""])
            elif b == "save_to":
                row[c] = g.pick(["p1", "name", "label", "__x", "1a", "a b"])
            elif b == "disabled":
                row[c] = g.pick(["yes", "no", "x"])
            else:
                row[c] = g.pick(S_TEXT + S_REFS[:6])
        row = {k: v for k, v in row.items() if str(v).strip() != ""}  # no back end can deliver an empty or blank cell
        survey.append(row)
        if structured and open_stack and P(0.3):
            survey.append({"type": "end " + open_stack.pop()})
    while structured and open_stack:
        survey.append({"type": "end " + open_stack.pop()})
    wb = {"survey": survey}
    if P(0.9):
        wb["survey_header"] = [{c: None for c in cols}]
    if P(0.8):
        ccols = ["list_name", "name", "label"] + [g.pick(S_CCOLS) for _ in range(g.integer(0, 3))]
        ccols = list(dict.fromkeys(ccols))
        if P(0.05):
            ccols[0] = "list name"
        for drop in ("list_name", "name", "label"):
            if P(0.04) and drop in ccols:
                ccols.remove(drop)
        ch = []
        for ln in ("l1", "l2"):
            for j in range(g.integer(0, 3)):
                row = {}
                for c in ccols:
                    if c in ("list_name", "list name"):
                        if P(0.95):
                            row[c] = ln
                    elif c in ("name", "value"):
                        if P(0.93):
                            row[c] = g.pick(["a", "b", "c", "a b", "1", "other", "-", "é"]) if P(0.6) else f"c{j}"
                    elif P(0.7):
                        row[c] = g.pick(S_TEXT + S_REFS[:4])
                ch.append({k: v for k, v in row.items() if str(v).strip() != ""})
            if P(0.1):
                ch.append({})
        wb["choices"] = ch
        if P(0.9):
            wb["choices_header"] = [{c: None for c in ccols}]
    if P(0.4):
        st_ = {}
        for _ in range(g.integer(1, 5)):
            k = g.pick(sorted(S_SETTINGS))
            st_[k] = g.pick(S_SETTINGS[k])
        st_ = {k: v for k, v in st_.items() if str(v).strip() != ""}
        if st_:
            wb["settings"] = [st_]
            wb["settings_header"] = [{k: None for k in st_}]
    if P(0.25):
        ext = []
        for j in range(g.integer(0, 3)):
            row = {}
            if P(0.9):
                row["list_name"] = g.pick(["e1", "l1", "zz"])
            if P(0.9):
                row["name"] = f"x{j}"
            if P(0.6):
                row["label"] = g.pick(S_TEXT)
            if P(0.4):
                row["state"] = g.pick(["a", "b"])
            ext.append({k: v for k, v in row.items() if str(v).strip() != ""})
        wb["external_choices"] = ext
        if P(0.85) and ext:
            wb["external_choices_header"] = [{k: None for r_ in ext for k in r_}]
    if P(0.25):
        e = {}
        for k, vals in (("dataset", ["trees", "a.b", "__x", "", "1a"]), ("list_name", ["people"]), ("label", S_EXPR + S_REFS), ("entity_id", S_REFS + S_EXPR),
                        ("create_if", S_EXPR), ("update_if", S_EXPR), ("repeat", ["${r1}", "x"]), ("what", ["x"])):
            if P(0.4):
                e[k] = g.pick(vals)
        e = {k: v for k, v in e.items() if str(v).strip() != ""}
        ents = [e] * (2 if P(0.1) else 1)
        if e:
            wb["entities"] = ents
            wb["entities_header"] = [{k: None for k in e}]
    if P(0.1):
        wb["osm"] = [{"list_name": g.pick(["l1", "o1"]), "name": g.pick(["building", "a b"]), "label": "B"} for _ in range(g.integer(0, 2))]
        if wb["osm"]:
            wb["osm_header"] = [{"list_name": None, "name": None, "label": None}]
    names = [k for k in wb if not k.endswith("_header")]
    if P(0.15):
        names.append(g.pick(["surveys", "choice", "setting", "_survey", "Sheet1", "external_choice", "entitys"]))
    if P(0.05) and "survey" in wb:
        # a misspelled survey sheet and no survey at all
        del wb["survey"]
        wb.pop("survey_header", None)
        names = [n if n != "survey" else "surveyy" for n in names]
    wb["sheet_names"] = names
    args = {}
    if P(0.15):
        args["default_language"] = g.pick(["en", "fr", "default", "zz"])
    if P(0.1):
        args["form_name"] = g.pick(["data", "f", "1x", "a b"])
    return {"wb": wb, "args": args}


# ============================================================ oracle


ROW_RE = re.compile(r"\[row : (\d+)\]")


def shape(msg: str, tokens) -> str:
    """message with site-dependent parts removed: planted tokens, numbers, quoted strings, dict echoes"""
    s = msg
    for t in sorted(tokens, key=len, reverse=True):
        s = s.replace(t, "@")
    s = re.sub(r"\{[^{}]*\}", "{}", s)
    s = re.sub(r"'[^']*'", "''", s)
    s = re.sub(r"\d+", "#", s)
    return s


def apply_op(form, op, seed):
    f = copy.deepcopy(form)
    f.pop("_langs", None)
    return OPS[op](f, rnd(seed, op))


def convert_plan(plan):
    form = plan.form
    args = {k: v for k, v in form.get("args", {}).items() if k in ("form_name", "default_language")}
    if plan.xlsx:
        try:
            if plan.xlsx == "csv":
                data = render.to_csv(form)
            elif plan.xlsx == "md" and render.md_ok(form):
                data = render.to_md(form)
            else:
                data = render.to_xlsx(form)
        except Exception as e:  # noqa: BLE001
            return "writer", e, None
        if isinstance(data, str):
            # text is sniffed by trying each reader, which hides what a reader has to say: name the format as a path suffix would
            args = dict(args, file_type=".csv" if plan.xlsx == "csv" else ".md")
        return (*common.run_workbook(data, **args), data)
    wb = model.to_workbook_dict(form)
    return (*common.run_workbook(wb, **args), wb)


def parse_stage_raises(wb, args):
    """does pyxform's own sheet-parsing stage raise for this workbook? (the observable behind 'the error belongs to a row')"""
    from pyxform.xls2json import workbook_to_json
    from pyxform.xls2json_backends import get_xlsform

    try:
        wd = get_xlsform(copy.deepcopy(wb) if isinstance(wb, dict) else wb)
        workbook_to_json(workbook_dict=wd, form_name=args.get("form_name"), fallback_form_name=wd.fallback_form_name,
                         default_language=args.get("default_language"), warnings=[])
    except PyXFormError:
        return True
    except Exception:  # noqa: BLE001
        return False
    return False


def evaluate(case) -> Outcome:
    if "junk" in case:
        return eval_junk(case)
    if "soup" in case:
        return eval_soup(case)
    if "broken" in case:
        return eval_mutation(case, fixed=True)
    if "spec" not in case:
        return eval_plain(case)
    return eval_mutation(case)


def eval_junk(case) -> Outcome:
    from pyxform.xls2xform import convert

    out = Outcome()
    j = case["junk"]
    data = bytes.fromhex(j["hex"])
    arg = data
    if j.get("as") == "str":
        try:
            arg = data.decode("utf-8")
        except UnicodeDecodeError:
            arg = data
        if isinstance(arg, str) and "\x00" in arg:
            arg = data   # a str with NUL cannot be probed as a path by the OS: deliver the bytes
    out.checked("C17.no-crash")
    try:
        res = convert(arg, file_type=j.get("file_type"))
        out.label("junk:ok")
        o2 = Outcome()
        c01.check_xform(o2, res.xform, {"settings": {"form_id": None}}, "junk")
        for v in o2.violations:
            if not v.sig.endswith("form-id"):
                out.fail("C17.result-wellformed", v.sig.split(":", 1)[-1].split("|")[0][:60] + "|junk", v.msg)
    except PyXFormError:
        out.label("junk:rejected")
    except Exception as e:  # noqa: BLE001
        out.fail("C17.no-crash", "junk|" + crash_sig(e) + "|" + common.err_class(e)[:50], f"{type(e).__name__}: {e}")
    out.nontrivial = len(data) > 0
    return out


def eval_plain(case) -> Outcome:
    """a form (regression corpus): whatever it is, converting it must end in a result or PyXFormError"""
    out = Outcome()
    status, res = common.run_form(case["form"])
    out.checked("C17.no-crash")
    out.label("plain:" + status)
    if status == "crash":
        out.fail("C17.no-crash", crash_sig(res), f"{type(res).__name__}: {res}")
    return out


STD_PREFIXES = {"jr", "odk", "orx", "ev", "h", "xsd", "entities", "xml"}
NAME_RE = re.compile(r"^[A-Za-z_][\w.-]*$")


def attr_header_cause(wb) -> str:
    """does the workbook carry attribute-bearing headers (attribute::, bind::, body::, instance::) whose attribute part is not an XML
    name, or uses a prefix that neither pyxform nor the namespaces setting declares?  (open finding; see known_findings.json)"""
    declared = set(STD_PREFIXES)
    for row in wb.get("settings", []) or []:
        for m in re.finditer(r"(\w+)\s*=", row.get("namespaces", "") or ""):
            declared.add(m.group(1))
    causes = set()
    for sheet in ("survey", "settings"):
        heads = set()
        for row in wb.get(sheet, []) or []:
            heads.update(row)
        for hd in wb.get(sheet + "_header", []) or []:
            heads.update(hd)
        for h in heads:
            parts = [t.strip() for t in h.split("::")]
            if len(parts) < 2 or parts[0].lower() not in ("attribute", "bind", "body", "instance", "control"):
                continue
            attr = parts[1]
            pre, _, loc = attr.rpartition(":")
            if not NAME_RE.match(loc) or (pre and not NAME_RE.match(pre)):
                causes.add("invalid-attribute-name-in-header")
            elif pre and pre not in declared:
                causes.add("undeclared-prefix-in-header")
    return "+".join(sorted(causes)) or "-"


def eval_soup(case) -> Outcome:
    out = Outcome()
    wb, args = case["soup"]["wb"], case["soup"].get("args", {})
    status, res = common.run_workbook(wb, **args)
    out.checked("C17.no-crash")
    out.label(("near-valid:" if case["soup"].get("near_valid") else "soup:") + status)
    typed = [r for r in wb.get("survey", []) if r.get("type")]
    if typed:
        out.label("soup:reached-row-loop")
    out.nontrivial = bool(typed)
    if status == "crash":
        out.fail("C17.no-crash", crash_sig(res) + "|" + common.err_class(res)[:50], f"{type(res).__name__}: {res}")
    elif status == "ok":
        # a result must be a real XForm (C01's predicate); the id is not prescribed here
        out.checked("C17.result-wellformed")
        o2 = Outcome()
        c01.check_xform(o2, res.xform, {"settings": {"form_id": None}}, "soup")
        cause = attr_header_cause(wb)
        for v in o2.violations:
            if v.sig.endswith("form-id"):
                continue
            kind = v.sig.split(":", 1)[-1].split("|")[0][:60]
            why = cause
            if "Namespace prefix" in kind and "undeclared-prefix-in-header" in cause:
                why = "undeclared-prefix-in-header"
            elif "Namespace prefix" not in kind and "invalid-attribute-name-in-header" in cause:
                why = "invalid-attribute-name-in-header"
            out.fail("C17.result-wellformed", kind + "|" + why, v.msg)
    else:
        out.label("soup-error:" + common.err_class(res)[:50])
    return out


def eval_mutation(case, fixed=False) -> Outcome:
    out = Outcome()
    if fixed:
        # regression corpus: an already-broken form with its expectation written out
        b = case["broken"]
        op, seed = b.get("op", "regress"), 0
        plan = Plan(copy.deepcopy(b["form"]), tokens=b.get("tokens", ()), anyof=b.get("anyof", ()), row=b.get("row"), stable=False,
                    xlsx=b.get("xlsx", False), note=b.get("note", ""), rows_alt=b.get("rows_alt", ()))
    else:
        form, spec = case["form"], case["spec"]
        op, seed = spec["op"], spec["seed"]
        # the base form must be valid, otherwise the planted defect is not the only one
        s0, r0 = common.run_form(form)
        if s0 != "ok":
            out.label("base-not-accepted:" + s0)
            return out
        try:
            plan = apply_op(form, op, seed)
        except Exception as e:  # noqa: BLE001  (a harness bug must not look like a finding)
            raise RuntimeError(f"operator {op} failed on its input: {type(e).__name__}: {e}") from e
        if plan is None:
            out.label("not-applicable:" + op)
            return out
    out.label("op:" + op, f"depth:{min(plan.depth, 3)}")
    status, res, wb = convert_plan(plan)
    if status == "writer":
        out.label("writer-cannot-carry")
        return out
    sub = f"{op}" + (f"/{plan.note}" if plan.note else "")
    out.checked("C17.rejected")
    if status == "crash":
        out.fail("C17.rejected", f"crash:{crash_sig(res)}|{op}", f"{type(res).__name__}: {res}")
        return out
    if status == "ok":
        out.fail("C17.rejected", f"accepted|{sub}", "conversion returned an XForm for a form with a planted " + op)
        return out
    msg = str(res)
    out.checked("C17.identifies")
    low = msg.lower()
    missing = [t for t in plan.tokens if t.lower() not in low]
    if missing or (plan.anyof and not any(t.lower() in low for t in plan.anyof)):
        out.fail("C17.identifies", sub, f"message lacks {missing or plan.anyof}: {msg[:300]}")
    args = {k: v for k, v in plan.form.get("args", {}).items() if k in ("form_name", "default_language")}
    if plan.row is not None:
        if parse_stage_raises(wb, args):
            out.checked("C17.row")
            cited = [int(x) for x in ROW_RE.findall(msg)]
            if plan.row not in cited and not any(x in cited for x in plan.rows_alt):
                out.fail("C17.row", sub + ("|no-row" if not cited else "|wrong-row"), f"planted at {plan.sheet} row {plan.row}; message: {msg[:300]}")
        else:
            out.label("row-not-in-scope:" + op)
    if plan.stable:
        sp = apply_op(SHALLOW, op, seed)
        if sp is not None:
            s2, r2, _ = convert_plan(sp)
            out.checked("C17.same-shape")
            if s2 != "rejected":
                out.fail("C17.same-shape", f"shallow-{s2}|{sub}", f"deep site rejected, 3-row form {s2}: {r2 if s2 == 'crash' else ''}")
            else:
                a, b = shape(msg, plan.tokens + plan.anyof), shape(str(r2), sp.tokens + sp.anyof)
                if a != b:
                    out.fail("C17.same-shape", sub, f"deep: {msg[:250]} / shallow: {str(r2)[:250]}")
    blank_above = any(n["k"] == "x" and not n["c"] for n, _ in model.walk(plan.form["nodes"]))
    out.nontrivial = plan.depth >= 1 or blank_above
    return out
