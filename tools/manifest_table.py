"""Per-property manifest text. Keep in step with DESIGN.md section 4."""

NOT_APPLICABLE = {}

CHECKS = {
    "C01": dict(
        technique="property-based testing (Hypothesis generators over abstract forms) with a validity-predicate oracle (libxml2 namespace-aware parse + skeleton check)",
        text="Generated-input search: thousands of random forms per run (all question types, nesting, languages, settings, adversarial text) are converted in both pretty_print modes and every output is parsed by libxml2 in namespace mode and checked against the ODK skeleton. Exploration is the honest level: the input space is unbounded and the oracle needs no model of pyxform.",
        design_ref="DESIGN.md §4 C01",
        note="Trusts lxml/libxml2 as XML arbiter and the abstract-form generator's coverage (label histogram in evidence). Containers other than dict are covered by C12.",
    ),
    "C02": dict(
        technique="property-based testing with a validity-predicate oracle over the parsed output (static path resolution of every nodeset/ref against the primary instance) plus name-collision mutations",
        text="Generated-input search over random forms with many generated helper nodes and a 25% share of deliberately colliding names; every bind/control/repeat/action path must resolve to exactly one instance node, siblings unique, no node bound twice, no two controls per ref, exactly one live and one jr:template copy of every repeat node, shaped alike; a value-changed action targets the row that has the trigger cell; colliding forms (same names, helper names, line-feed twins, the legacy flat setting, path-setting attribute columns) must be rejected or still unambiguous.",
        design_ref="DESIGN.md §4 C02",
        note="Static resolution of the path shapes pyxform emits (/a/b, /a/b/@x); templates removed before resolving.",
    ),
    "C15": dict(
        technique="property-based differential testing: pretty_print=True vs False outputs compared as canonical trees (character-exact text in any element with non-blank text)",
        text="Generated-input search; each form is converted in both modes and the two documents must be the same tree with identical attributes, namespaces and text (whitespace-only text ignored only between elements). Also: one mode well-formed and the other not is a difference; the survey's own file writer (print_xform_to_file) is put through the same switch; the file-to-file entry point xls2xform_convert() is run in both modes for a quarter of the cases; texts carry U+2028/U+2029/U+0085, multi-line string literals and quotations of the serialiser's own markup (xmlns declarations, tags, '?>').",
        design_ref="DESIGN.md §4 C15",
        note="Both outputs parsed by libxml2; generator weighted to mixed text/output content and significant spaces.",
    ),
    "C16": dict(
        technique="property-based round-trip testing (workbook JSON and survey.to_json_dict dumps through json.dumps/loads and the builder) with XForm equality and dump-stability oracles",
        text="Generated-input search; four round-trip clauses per accepted form. Differences are classified by what differs (attribute, element, text) so each root cause is its own bucket. Also: the survey's to_json() text through create_survey_element_from_json; the legacy flat and add_none_option settings.",
        design_ref="DESIGN.md §4 C16",
        note="Uses pyxform's public builder/to_json_dict/workbook_to_json entry points; two genuine defects found here were fixed in /repo (see known_findings.json).",
    ),
    "C03": dict(
        technique="bounded-exhaustive enumeration of referrer/target container layouts x cell kinds plus Hypothesis random forms; oracle = reference model of the instance tree + static path resolver (each substituted token must reach the target; relative where the statement demands; current() in predicates), and missing/ambiguous-name mutations",
        text="Every layout of group/repeat containers around a referrer and a target up to depth 3 (quick) or 4 (thorough) is converted for 16 cell kinds; random forms add several references per expression, indexed-repeat, instance(), pulldata, last-saved, references to enclosing repeats and name-prefix clashes, nested predicates and parentheses, select-from-repeat itemsets with filters (three layouts), and the rules that indexed-repeat() field/group arguments are absolute, that a relative path never climbs above the shared repeat instance, and that instance('__last-saved') is declared whenever it is referred to. Exhaustive only over the layout sub-space.",
        design_ref="DESIGN.md §4 C03",
        note="XPath is not evaluated over data; reaching the target is decided by static resolution of the path shapes pyxform emits. Genuine defects found here were fixed in /repo (DESIGN.md 13.2).",
    ),
    "C04": dict(
        technique="property-based testing against a reference model (abstract tree -> expected instance and body trees, restated type table)",
        text="Random forms with every question type, deep nesting, table-list, or_other, repeat_count helpers, meta rows and noise rows; the parsed primary instance (templates removed) and h:body control tree must equal the model's trees node for node, in order, with the prescribed tags and static attributes.",
        design_ref="DESIGN.md §4 C04",
        note="Model restated from XLSForm docs in vf/ref/expect.py and vf/ref/typetable.py and calibrated on the unchanged tree.",
    ),
    "C05": dict(
        technique="property-based testing against a reference model of bind attributes (restated alias/type tables), with column alias and column order randomisation",
        text="Random forms with dense logic columns under random documented aliases and column orders; each bind's whole attribute dict must equal the model's (missing, extra, misplaced and altered attributes are separate clauses).",
        design_ref="DESIGN.md §4 C05",
        note="Substituted references are matched structurally (C03 decides whether relative tokens reach the target). Entity binds are C19's.",
    ),
    "C07": dict(
        technique="property-based testing with a validity-predicate oracle over the itext block (every jr:itext()/itextId resolves in every translation, equal id sets, unique languages/ids, default flag)",
        text="Random multi-language forms with sparse translation patterns, shared lists, search() selects and label-less choices; the oracle needs no model: it reads all references and all translations from the parsed output. Languages that differ only in white space (doubled or non-breaking space in one column's header) count as one language.",
        design_ref="DESIGN.md §4 C07",
        note="References are collected from every attribute and every itextId element of the parsed document.",
    ),
    "C08": dict(
        technique="property-based testing against a reference model of effective text per (element, kind, language), with unique generated texts and random column order",
        text="Random multi-language forms where every text encodes its row/column/language; for each element with a control and each language of the form the shown label/hint/guidance/messages/media (itext resolved) must equal the model, holes must be '-', and the set of translations must equal the languages the sheets mention. In-line items of search() selects (also randomised ones) are compared per language like instance items.",
        design_ref="DESIGN.md §4 C08",
        note="Model in vf/ref/itext.py restated from the XLSForm docs (default-language rule: suffixed cell wins over unsuffixed). Two genuine defects found here were fixed in /repo.",
    ),
    "C09": dict(
        technique="property-based testing against a reference model of secondary instances, itemsets, external instance declarations and the itemsets CSV",
        text="Random forms with many lists (shared, unused, sparse extra columns, translated, duplicates), every select variant, external sources and external_choices; each list must yield exactly one instance with its items/children in order, each select must read its own list with its own filter/randomize/refs, each external source is declared once with the conventional URI, and itemsets.csv must reproduce the sheet cell for cell. The seed reference of a randomised select is resolved from the select; parameter names in any case with case-sensitive values.",
        design_ref="DESIGN.md §4 C09",
        note="Model in vf/props/c09.py; select-from-repeat is not generated. Three genuine defects found here were fixed in /repo.",
    ),
    "C10": dict(
        technique="property-based testing with an exactly-once invariant plus a restated static/dynamic rule as reference model (defaults in instance vs setvalue placement/events; triggers as nested value-changed actions)",
        text="Random forms with defaults drawn from static, dynamic and boundary classes on every question type inside and outside nested repeats, and trigger/target pairs; for every default exactly one of literal-in-instance or single first-load setvalue must hold, class and placement as prescribed; triggered calculations must be one nested action and no bind calculate. A static default must occur in exactly one live node and, inside repeats, one template node; references of a triggered calculation are resolved from the calculated node.",
        design_ref="DESIGN.md §4 C10",
        note="Boundary texts (hyphens, brackets, bare paths) are only held to the exactly-once clause. One genuine defect fixed in /repo.",
    ),
    "C11": dict(
        technique="property-based testing against a reference model of the form header, with unique setting values (leak detection), alias spellings and file-path vs in-memory delivery",
        text="Random subsets of all settings columns with unique values under random aliases, with/without convert() arguments, dict or md/xlsx file delivery with odd stems; title, instance root name/id/version/attributes, submission, body class, namespaces, instanceID/instanceName are compared with the model and every value must appear at its own place only. Metamorphic clause: a form that converts without its settings sheet must convert with it (every generated settings value is a documented, valid one); settings cells with TAB/LF/CR; namespace names ending in '#'.",
        design_ref="DESIGN.md §4 C11",
        note="Smart-quote straightening in settings cells is tolerated either way.",
    ),
    "C19": dict(
        technique="exhaustive enumeration of the 16 entity column presence patterns plus property-based random placement/naming, against the decision table restated from the entities spec",
        text="All 16 patterns x 3 form shapes x save_to on/off are converted and compared with the table (accept/reject, exact attribute set on meta/entity, bind set with substituted expressions, uuid() setvalue, version attributes, namespace/version declaration); random forms add expressions with references, save_to anywhere, invalid names, extra rows/columns.",
        design_ref="DESIGN.md §4 C19",
        note="Exhaustive only over the 16 presence patterns; table restated in vf/props/c19.py.",
    ),
    "C20": dict(
        technique="bounded-exhaustive enumeration (translatable header sets, near sheet names) plus property-based planting of row-level triggers; oracle = independent trigger model compared in both directions (missing and spurious warnings)",
        text="Every set of up to 3/4 translatable headers x languages on each sheet, every sheet name within edit distance 2 of settings/entities on a small alphabet, and random forms with planted triggers; the parsed multiset of (kind, subject, row) must equal the model's; results must still satisfy C01/C02 predicates and output-neutral triggers must not change the XForm.",
        design_ref="DESIGN.md §4 C20",
        note="IANA validity is prescribed only for a fixed list of well-known codes and obvious non-codes; short language names are not prescribed.",
    ),
    "C06": dict(
        technique="property-based testing with an adversarial text alphabet: per-channel round-trip oracle (parser-recovered text == source cell modulo documented normalisations) and a metamorphic skeleton-invariance oracle (same form with benign text must give the same element/attribute-name tree)",
        text="Random small forms with every text-bearing channel filled with XML metacharacters, entity/CDATA/comment fragments, quotes, braces, astral/RTL/NBSP/ZWJ characters and significant whitespace, with and without embedded references, in 0-3 languages; attribute-borne text (messages, custom attributes, version) must come back exactly, TAB/LF/CR included; a form may not be refused because of its text (compared with the same form with benign text); a share of forms runs with clean_text_values=no; a dedicated clause puts adversarial choice labels (backslashes, %, regex-template sequences) through the legacy loop's %(label)s/%(name)s substitution. The run is inconclusive (exit 2) if any channel was never exercised.",
        design_ref="DESIGN.md §4 C06",
        note="Characters XML 1.0 cannot represent are outside this alphabet (see C01 edge probes). The literal label '-' is indistinguishable from the itext placeholder by design.",
    ),
    "C13": dict(
        technique="property-based metamorphic testing: a random composition of catalogued spelling/layout transformations must leave the canonical XForm and the parsed warning multiset unchanged up to the predicted row shift; failing compositions are re-run one transformation at a time to attribute the cause",
        text="Random forms x random subsets of 13 transformation kinds (header case/spacing, column aliases, ':' delimiter, type aliases, truth values, quotes, spaces, column and sheet permutation, blank rows, extra sheets, unknown columns, sheet-name case via xlsx). Both conversions must have the same outcome; generated helper names and [row : n] move by exactly the inserted blank rows.",
        design_ref="DESIGN.md §4 C13",
        note="Alias catalogue restated in vf/props/c13.py from the statement and the XLSForm docs. Translations and item children are compared order-insensitively under column permutation. One genuine defect fixed in /repo.",
    ),
    "C12": dict(
        technique="property-based differential testing: each generated workbook is rendered as md, csv, xlsx/xlsm (openpyxl) and xls (own BIFF8 writer) with generated cell-typing and layout noise and delivered through generated channels; (xform, warnings, itemsets) must be byte-equal to the dict rendering of the canonical text",
        text="Random forms with planted number/boolean-looking cells x 5 containers x 6 delivery channels x explicit/implicit file_type x spreadsheet noise (typed int/integral float/decimal/bool cells, padding incl. NBSP/tab/newline, inner NBSP, header padding, trailing empty rows/columns, blank-row runs up to 60 and blank-column runs up to 20 with the boundaries weighted, a remark outside the table); the text containers carry the blank rows, header-less columns and in-text NBSP too, plus a byte order mark and Markdown separator rows; deliveries include a BytesIO left at its end and a NamedTemporaryFile; workbooks with one sheet of any name. A path delivery must additionally supply the default id from its stem. The run is inconclusive (exit 2) if any container, channel or noise class was never exercised.",
        design_ref="DESIGN.md §4 C12",
        note=".xls files come from our own BIFF8/OLE2 writer (LABEL, LABELSST, NUMBER, RK, MULRK, BOOLERR, BLANK records). Genuine defects found here were fixed in /repo (DESIGN.md 13.2).",
    ),
    "C17": dict(
        technique="property-based mutation testing (valid generated form x catalogued breaking operator x generated site; oracle = PyXFormError + planted-token substring + [row : n] when pyxform's own parse stage raises + message-shape agreement with the same operator on a 3-row form) plus grammar-based fuzzing with XLSForm vocabulary soup (oracle = result passing C01's predicate, or PyXFormError)",
        text="38 breaking operators (unbalanced/mismatched begin-end, duplicate/invalid/missing names, missing/unknown types, unknown/ambiguous/malformed references in every cell kind, missing sheets/lists/choices, duplicate choices, calculate without calculation, ~30 bad-parameter variants, duplicate headers via xlsx, alias clashes in both orders, missing required headers, instance-id clashes, section name clashes, or_other+filter, spaces in select_multiple choices, wrong file extension, audit name, big-image without image, no label, external choices problems, bad triggers, search() misuse, omit_instanceID with key, save_to problems, table-list mismatch, loops) applied at generated sites of generated forms, and vocabulary soup workbooks over all sheets. The run is inconclusive if any operator was never applied.",
        design_ref="DESIGN.md §4 C17",
        note="Internal slot names (children, choices, itemset) are not generated as headers. 13 genuine defects found here were fixed in /repo; 3 remain open in known_findings.json (one is pinned by a test of the suite).",
    ),
    "C18": dict(
        level="fault_enumeration",
        technique="fault-injection enumeration plus property-based generation: a scripted stand-in for the java executable on PATH (exit code, stderr, self-kill, sleep), a private TMPDIR and the working tree's CLI run as a subprocess; oracle = restated verdict table (codes 100/101/999, exception types, output file equal to the library result or untouched/removed, itemsets.csv) + expected cleaned message constructed by the stderr line grammar + empty TMPDIR and output directory",
        text="The full product validator outcome {exit 0 silent, exit 0 + stderr, exit n>0 + stderr, killed by signal, java absent, real java + corrupt jar} x entry {library validate=True, CLI default, --json, --skip_validate, --odk_validate} x form {valid, valid with warnings, external choices, invalid} x output file {absent, pre-existing} is run on every quick run (240 cells; thorough doubles it with --pretty_print and adds the 100 s watchdog), then generated cases vary the stderr text (instance paths, kept paths, exception prefixes, stack lines, adjacent duplicates, non-ASCII), non-adjacent repeats of a line, stack traces thousands of frames deep and lists of thousands of findings, the exit status (1, 2, 3, 134, 255), the form (generated, md or xlsx) and the cell. Histories: every ordered pair of validator outcomes {silent, warnings, reject, killed} on the same form and on two forms (plus triples and sampled longer ones) is run as several validated conversions in ONE process, each call judged on its own. A share of the CLI runs happens in a process whose locale encoding is not UTF-8 (standard streams kept UTF-8): the XForm file must still be the library result.",
        design_ref="DESIGN.md §4 C18",
        note="The stand-in records whether it was started, so --skip_validate and invalid forms are checked not to start it. Enketo is not exercised. Python-side crash points are not enumerated.",
    ),
    "C14": dict(
        technique="property-based differential testing over processes, histories and schedules: long-lived worker processes with different PYTHONHASHSEED values, generated step sequences (a history machine whose model is the answer of a pristine forked process), repeated to_xml() on the retained survey, a harness-owned thread scheduler (sys.setprofile baton passing at pyxform call boundaries driven by a generated, shrinkable schedule) and free-running thread stress; oracle = byte equality of (xform, warnings, itemsets) with the fresh-process answer, empty private TMPDIR, unchanged module-level tables",
        text="Each shard keeps four long-lived workers (hash seeds 0, 1 and two derived from VERIF_SEED) so that state accumulates over the whole run. Generated cases: one form on all seeds; histories of 3-9 steps over a pool of 2-5 forms (incl. a rejected one) with regeneration; 2-4 conversions interleaved by a generated schedule of up to 40 switch points, and again under race-directed schedules in pristine child processes (every entry of a function sampled from the first conversion's own call trace hands the baton on; cold caches); 4-12 free-running threads; concurrent first conversions of a brand-new process. The workbook object handed to convert() must come back unchanged and convert the same a second time. After every step the worker's TMPDIR must be empty and a deep snapshot of aliases/constants/question-type tables must equal the snapshot taken at import. Batches of .xlsx files with typed cells (booleans, whole numbers stored as 1.0) exercise the readers' state between files; the flat setting and several near-miss sheet names are generated.",
        design_ref="DESIGN.md §4 C14, §13",
        note="Hash seeds are sampled; switch points are function-call boundaries. Genuine defects found here and fixed in /repo: set iteration order reaching the output (twice), a shared re.Scanner whose match state raced between threads, convert() modifying the caller's dict; see DESIGN.md 13.2.",
    ),
}
