"""Reference model: what the primary instance, the binds and the body must look like
for an abstract form.  Written from the XLSForm documentation and the property
statements; it walks the abstract tree (which *is* the expected nesting).
"""

from __future__ import annotations

import re

from vf import common, model
from vf.ref import typetable as tt

YES = {"yes", "Yes", "YES", "true", "True", "TRUE", "true()"}
NO = {"no", "No", "NO", "false", "False", "FALSE", "false()"}
BIND_TRUE = {"yes", "Yes", "YES", "true", "True", "TRUE"}
BIND_FALSE = {"no", "No", "NO", "false", "False", "FALSE"}
CONVERTIBLE = {"readonly", "required", "relevant", "constraint", "calculate"}

# survey column -> bind attribute
BIND_COLS = {"relevant": "relevant", "required": "required", "readonly": "readonly", "constraint": "constraint",
             "calculation": "calculate", "constraint_message": "jr:constraintMsg", "required_message": "jr:requiredMsg",
             "save_to": "entities:saveto"}
TRANSLATABLE = ("label", "hint", "guidance_hint", "constraint_message", "required_message", "image", "audio", "video", "big-image")
PURE_REF = re.compile(r"^\$\{(last-saved#)?[^}\s]+\}$")


class RNode:
    __slots__ = ("name", "kind", "type", "cells", "row", "parent", "children", "src", "helper", "instance_node")

    def __init__(self, name, kind, type_=None, cells=None, row=None, src=None, helper=None, instance_node=True):
        self.name = name
        self.kind = kind  # root | q | g | r
        self.type = type_
        self.cells = cells or {}
        self.row = row
        self.parent = None
        self.children = []
        self.src = src
        self.helper = helper
        self.instance_node = instance_node

    def add(self, ch):
        ch.parent = self
        self.children.append(ch)
        return ch

    @property
    def path(self):
        parts = []
        n = self
        while n is not None:
            parts.append(n.name)
            n = n.parent
        return "/" + "/".join(reversed(parts))

    def ancestors(self):
        n = self.parent
        while n is not None:
            yield n
            n = n.parent

    def innermost_repeat(self):
        for a in self.ancestors():
            if a.kind == "r":
                return a
        return None

    def walk(self):
        yield self
        for c in self.children:
            yield from c.walk()


def cell(cells, col):
    """plain (unsuffixed) cell text after the documented survey-sheet cleaning, or None"""
    v = cells.get(col)
    return common.survey_clean(v) if isinstance(v, str) else v


def lang_cells(cells, col):
    """{lang or None: text} for a translatable column"""
    out = {}
    for k, v in cells.items():
        if k == col:
            out[None] = common.survey_clean(v)
        elif k.startswith(col + "::"):
            out[k[len(col) + 2:]] = common.survey_clean(v)
    return out


def default_language(form):
    """settings sheet wins over the convert() argument; the documented fallback is the literal 'default'"""
    v = form.get("settings", {}).get("default_language") or form.get("args", {}).get("default_language") or "default"
    return " ".join(v.split()) or v      # (cleaned like the language names in column headers)


def shadowed(cells, col, dlang):
    """documented: an unsuffixed cell is overwritten when the same row has a cell suffixed with the default language"""
    return "::" not in col and f"{col}::{dlang}" in cells


def has_any(cells, col):
    return any(k == col or k.startswith(col + "::") for k in cells)


def root_name(form):
    return form.get("settings", {}).get("name") or form.get("args", {}).get("form_name") or "data"


def truthy(v):
    return v in YES


def build(form):
    """abstract form -> RNode tree (root) including documented generated nodes."""
    root = RNode(root_name(form), "root")
    meta_children = []
    row = [1]

    def walk(nodes, parent, table_list):
        for n in nodes:
            row[0] += 1
            r = row[0]
            k = n["k"]
            c = n["c"]
            if k == "x":
                continue  # blank / comment / disabled rows produce nothing
            if truthy(c.get("disabled")):
                if k in ("g", "r"):
                    raise ValueError("disabled containers are outside the generated domain")
                continue
            if k in ("g", "r"):
                name = c["name"]
                node = RNode(name, k, None, c, r, n)
                rc = cell(c, "repeat_count")
                if k == "r" and rc and not PURE_REF.match(rc):
                    parent.add(RNode(f"{name}_count", "q", "calculate", {"calculation": rc, "readonly": "true()"}, r, None, helper="count"))
                parent.add(node)
                ap = (cell(c, "appearance") or "").split()
                tl = None
                if "table-list" in ap:
                    tl = {"first": True}
                    if has_any(c, "label") or has_any(c, "hint"):
                        hc = {kk: vv for kk, vv in c.items() if kk.split("::")[0] in ("label", "hint")}
                        node.add(RNode(f"generated_table_list_label_{r}", "q", "note", hc, r, None, helper="table-list-label"))
                walk(n.get("ch", []), node, tl)
                row[0] += 1  # the end row
                continue
            # question rows
            tcell = cell(c, "type")
            base, lst, other = tt.parse_type(tcell)
            if base == "audit":
                meta_children.append(RNode("audit", "q", "audit", c, r, n))
                continue
            name = c.get("name")
            if name is None and base == "note":
                name = f"generated_note_name_{r}"
            if base in tt.EXTERNAL_INSTANCE_TYPES:
                parent.add(RNode(name, "q", base, c, r, n, instance_node=False))
                continue
            if table_list is not None and base in ("select_one", "select_multiple") and table_list["first"]:
                table_list["first"] = False
                parent.add(RNode(f"reserved_name_for_field_list_labels_{r}", "q", f"{base} {lst}", {"appearance": "label"}, r, None, helper="table-list-header"))
            node = parent.add(RNode(name, "q", tcell, c, r, n))
            if table_list is not None and base in tt.SELECTS:
                node.helper = "in-table-list"
            if other:
                parent.add(RNode(f"{name}_other", "q", "text", {"label": "Specify other.", "relevant": f"selected(../{name}, 'other')"}, r, None, helper="other"))

    walk(form.get("nodes", []), root, None)
    s = form.get("settings", {})
    if not truthy(s.get("omit_instanceID")):
        meta_children.append(RNode("instanceID", "q", "calculate", {}, None, None, helper="instanceID"))
    if "instance_name" in s:
        meta_children.append(RNode("instanceName", "q", "calculate", {"calculation": s["instance_name"]}, None, None, helper="instanceName"))
    erows = [r for r in form.get("entities") or [] if r]
    if erows:
        ent = RNode("entity", "q", "entity", dict(erows[0]), None, None, helper="entity")
        if erows[0].get("label"):
            ent.add(RNode("label", "q", "entity-label", {}, None, None, helper="entity-label"))
        meta_children.append(ent)
    if meta_children:
        meta = root.add(RNode("meta", "g", None, {}, None, None, helper="meta"))
        for m in meta_children:
            meta.add(m)
    return root


def by_name(root):
    out = {}
    for n in root.walk():
        if n.kind != "root":
            out.setdefault(n.name, []).append(n)
    return out


# ------------------------------------------------------------------- instance


def instance_shape(n: RNode):
    """(name, children...) tree of expected instance nodes"""
    return (n.name, tuple(instance_shape(c) for c in n.children if c.instance_node))


def actual_shape(el):
    from vf import xform

    return (xform.local(el), tuple(actual_shape(c) for c in xform.elems(el)))


# ----------------------------------------------------------------------- binds


def is_dynamic_default(text, base):
    """The documented rule, restated (not imported): a default is an expression when it contains a function
    call, a ${reference}, an arithmetic operator (+ * or spaced div/mod; '-' except for date/dateTime/geo types),
    a union '|' or a predicate '['.  Returns True / False / None (None = boundary, not prescribed)."""
    if not text:
        return False
    t = text
    if model.REF_RE.search(t):
        return True
    if re.fullmatch(r"-?(\d+(\.\d*)?|\.\d+)", t):
        return False  # a (negative) number literal, with or without digits before the point
    # ISO date / time / dateTime literals (with zone offsets) are literals whatever the question type
    t = re.sub(r"-?\d{4}-\d{2}-\d{2}(T\d{2}:\d{2}:\d{2}(\.\d+)?(Z|[+-]\d{2}:\d{2})?)?", "D", t)
    t = re.sub(r"\d{2}:\d{2}:\d{2}(\.\d+)?(Z|[+-]\d{2}:\d{2})?", "T", t)
    if re.search(r"[A-Za-z_][\w.\-]*\s*\(", t):
        return True      # a function call (XPath allows white space before the parenthesis)
    if "+" in t or "*" in t or "|" in t:
        return True
    if " div " in t or " mod " in t:
        return True
    if "[" in t:
        return True  # documented: brackets make the cell an expression
    if "-" in t:
        return None  # hyphen: number sign, date separator, name character or operator -- boundary class
    if any(ch in t for ch in "()[]{}"):
        return None
    if "/" in t and not t.startswith(("http", "jr:")) and re.search(r"(^|[\s(])\.{1,2}/", t):
        return None
    return False


def expected_control(n: RNode):
    """does this node get a body control?  (None tag = no control)"""
    if n.kind in ("g", "r"):
        return None if n.helper == "meta" else "group"
    if n.type in ("entity", "entity-label"):
        return None
    base, lst, other = tt.parse_type(n.type)
    if base in tt.EXTERNAL_INSTANCE_TYPES:
        return None
    tag = tt.type_info(n.type)[0]
    if tag is None:
        return None
    c = n.cells
    labelled = has_any(c, "label") or has_any(c, "hint") or any(has_any(c, m) for m in ("image", "audio", "video", "big-image"))
    if (("calculation" in c) or ("trigger" in c)) and not labelled:
        return None
    return tag
