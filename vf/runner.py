"""Check runner:  python -m vf.runner <ID> [--tier quick|thorough] [--replay FILE] [--examples N] [--shards S]

Exit codes: 0 held (possibly with KNOWN-FINDING lines), 1 violation(s) (one
`VIOLATION property=<ID> replay=<path>` line each), 2 harness error / inconclusive.
"""

from __future__ import annotations

import argparse
import collections
import hashlib
import importlib
import json
import multiprocessing as mp
import os
import sys
import time
import traceback

HERE = os.path.dirname(os.path.dirname(os.path.abspath(__file__)))
OUT = os.path.join(HERE, "out")
EVID = os.path.join(HERE, "evidence")
KNOWN = os.path.join(HERE, "known_findings.json")
REGRESS = os.path.join(HERE, "corpus", "regress")


# --------------------------------------------------------------------- outcome


class Violation:
    __slots__ = ("clause", "sig", "msg")

    def __init__(self, clause: str, sig: str, msg: str = ""):
        self.clause = clause
        self.sig = sig
        self.msg = msg


class Outcome:
    """What one evaluation of one case produced."""

    __slots__ = ("violations", "nontrivial", "labels", "clauses", "note")

    def __init__(self):
        self.violations: list[Violation] = []
        self.nontrivial = False
        self.labels: list[str] = []
        self.clauses = collections.Counter()  # clause id -> number of times the clause was evaluated
        self.note = None

    def fail(self, clause, tag="", msg=""):
        sig = f"{clause}:{tag}" if tag else clause
        self.violations.append(Violation(clause, sig, str(msg)[:600]))

    def checked(self, clause, n=1):
        self.clauses[clause] += n

    def label(self, *ls):
        self.labels.extend(ls)


def crash_sig(exc: BaseException) -> str:
    """(type, innermost pyxform frame) signature of an unexpected exception."""
    tb = traceback.extract_tb(exc.__traceback__)
    frame = None
    for fr in tb:
        fn = fr.filename.replace("\\", "/")
        if "/pyxform/" in fn:
            frame = fr
    if frame is None and tb:
        frame = tb[-1]
    where = f"{os.path.basename(frame.filename)}:{frame.name}" if frame else "?"
    return f"{type(exc).__name__}@{where}"


def digest(case) -> str:
    return hashlib.sha1(json.dumps(case, sort_keys=True, ensure_ascii=False).encode("utf-8", "surrogatepass")).hexdigest()[:16]


def case_size(case) -> int:
    return len(json.dumps(case, ensure_ascii=False))


# ------------------------------------------------------------------- collector


class Collector:
    def __init__(self, prop):
        self.prop = prop
        self.evaluations = 0
        self.nontrivial = set()
        self.labels = collections.Counter()
        self.clauses = collections.Counter()
        self.buckets = {}  # sig -> dict(count, case, msg, clause, size)
        self.samples = []
        self.excluded = collections.Counter()

    def run(self, case):
        out = self.prop.evaluate(case)
        self.evaluations += 1
        self.clauses.update(out.clauses)
        self.labels.update(out.labels)
        if out.nontrivial:
            d = digest(case)
            if d not in self.nontrivial:
                self.nontrivial.add(d)
                if len(self.samples) < 2:
                    self.samples.append(case)
        for v in out.violations:
            b = self.buckets.get(v.sig)
            sz = case_size(case)
            if b is None:
                self.buckets[v.sig] = dict(count=1, case=case, msg=v.msg, clause=v.clause, size=sz)
            else:
                b["count"] += 1
                if sz < b["size"]:
                    b.update(case=case, msg=v.msg, size=sz)
        return out

    def export(self):
        return dict(evaluations=self.evaluations, nontrivial=sorted(self.nontrivial), labels=dict(self.labels),
                    clauses=dict(self.clauses), buckets=self.buckets, samples=self.samples)


def _shard_main(args):
    prop_name, tier, seed, shard, nshards, examples = args
    try:
        prop = importlib.import_module(f"vf.props.{prop_name}")
        col = Collector(prop)
        # 1. enumerated sub-space (sharded round robin)
        enum_total = 0
        if hasattr(prop, "enumerate_cases"):
            for i, case in enumerate(prop.enumerate_cases(tier)):
                enum_total += 1
                if i % nshards == shard:
                    col.run(case)
        # 2. random search with Hypothesis as the generator engine
        strat = prop.strategy(tier) if hasattr(prop, "strategy") else None
        if strat is not None and examples > 0:
            import hypothesis
            from hypothesis import HealthCheck, Phase, given, settings

            hseed = (seed * 1000003 + shard) % (2**32)

            @hypothesis.seed(hseed)
            @settings(max_examples=examples, database=None, deadline=None, derandomize=False,
                      report_multiple_bugs=False, suppress_health_check=list(HealthCheck),
                      phases=[Phase.generate, Phase.target])
            @given(strat)
            def body(case):
                out = col.run(case)
                if hasattr(prop, "target"):
                    prop.target(case, out)

            body()
        res = col.export()
        res["enum_total"] = enum_total
        return res
    except BaseException as e:  # harness error: never a violation
        return {"error": f"shard {shard}: {type(e).__name__}: {e}\n{traceback.format_exc()}"}


# --------------------------------------------------------------------- shrink


# case metadata written by mutation/enumeration engines: never touched by the shrinker
PROTECTED_KEYS = {"k", "broken", "layout", "collision", "mutation", "meta", "spec"}


def _reductions(x, path=()):
    """yield (path, op) candidate edits of a JSON value, big deletions first."""
    if isinstance(x, list):
        for i in range(len(x)):
            yield (*path, i), "del"
        for i, v in enumerate(x):
            if isinstance(v, dict) and isinstance(v.get("ch"), list) and v["ch"]:
                yield (*path, i), "unwrap"
        for i, v in enumerate(x):
            yield from _reductions(v, (*path, i))
    elif isinstance(x, dict):
        for k in list(x):
            if k in PROTECTED_KEYS:
                continue
            yield (*path, k), "del"
        for k, v in x.items():
            if k in PROTECTED_KEYS:
                continue
            yield from _reductions(v, (*path, k))
    elif isinstance(x, str) and len(x) > 1:
        yield path, "half1"
        yield path, "half2"
        if len(x) > 3:
            yield path, "one"


def _apply(case, path, op):
    import copy

    c = copy.deepcopy(case)
    parent = None
    cur = c
    for p in path[:-1]:
        cur = cur[p]
    parent = cur
    last = path[-1]
    if op == "del":
        del parent[last]
    elif op == "unwrap":
        node = parent[last]
        parent[last:last + 1] = node["ch"]
    elif op == "half1":
        parent[last] = parent[last][: len(parent[last]) // 2]
    elif op == "half2":
        parent[last] = parent[last][len(parent[last]) // 2:]
    elif op == "one":
        parent[last] = parent[last][:1]
    return c


def shrink(prop, case, sig, budget):
    """greedy delta-debugging over the JSON case; keeps `sig` firing."""

    def fires(c):
        try:
            out = prop.evaluate(c)
        except Exception:
            return False
        return any(v.sig == sig for v in out.violations)

    evals = 0
    improved = True
    while improved and evals < budget:
        improved = False
        for path, op in list(_reductions(case)):
            if evals >= budget:
                break
            try:
                cand = _apply(case, path, op)
            except Exception:
                continue
            if cand == case:
                continue
            evals += 1
            if fires(cand):
                case = cand
                improved = True
                break
    return case, evals


def _shrink_main(args):
    prop_name, sig, case, budget = args
    prop = importlib.import_module(f"vf.props.{prop_name}")
    try:
        small, evals = shrink(prop, case, sig, budget)
        out = prop.evaluate(small)
        msg = next((v.msg for v in out.violations if v.sig == sig), "")
        return sig, small, msg, evals
    except BaseException as e:
        return sig, case, f"(shrink failed: {e})", 0


# ----------------------------------------------------------------------- known


def load_known(pid):
    if not os.path.exists(KNOWN):
        return []
    data = json.load(open(KNOWN))
    return [f for f in data.get("findings", []) if f.get("property") == pid and f.get("status") == "open"]


def replay_file(prop, path):
    case = json.load(open(path))
    if isinstance(case, dict) and "case" in case and "signature" in case:
        case = case["case"]
    return case, prop.evaluate(case)


# ------------------------------------------------------------------------ main


def main(argv=None):
    """all scratch files of a run (ours and pyxform's) live under one private directory that is removed on exit"""
    import shutil
    import tempfile

    run_tmp = tempfile.mkdtemp(prefix="vfrun_")
    os.environ["TMPDIR"] = run_tmp
    tempfile.tempdir = run_tmp
    try:
        return _main(argv)
    finally:
        shutil.rmtree(run_tmp, ignore_errors=True)


def _main(argv=None):
    ap = argparse.ArgumentParser()
    ap.add_argument("prop")
    ap.add_argument("--tier", default=os.environ.get("VERIF_TIER", "quick"), choices=["quick", "thorough"])
    ap.add_argument("--replay")
    ap.add_argument("--examples", type=int)
    ap.add_argument("--shards", type=int)
    ap.add_argument("--no-shrink", action="store_true")
    a = ap.parse_args(argv)
    pid = a.prop.upper()
    pname = pid.lower()
    seed = int(os.environ.get("VERIF_SEED", "1") or "1")
    t0 = time.time()
    try:
        prop = importlib.import_module(f"vf.props.{pname}")
    except Exception:
        traceback.print_exc()
        print(f"HARNESS-ERROR property={pid} cannot import check")
        return 2

    if a.replay:
        try:
            case, out = replay_file(prop, a.replay)
        except Exception:
            traceback.print_exc()
            return 2
        known = {f["signature"] for f in load_known(pid)}
        bad = [v for v in out.violations if v.sig not in known]
        for v in out.violations:
            print(f"{'KNOWN-FINDING:' if v.sig in known else 'REPLAY-VIOLATION'} property={pid} signature={v.sig} {v.msg}")
        if bad:
            print(f"VIOLATION property={pid} replay={os.path.abspath(a.replay)}")
            return 1
        print(f"replay ok property={pid}")
        return 0

    if hasattr(prop, "custom_main"):
        # properties with their own engines (histories, schedules, fault injection)
        try:
            return prop.custom_main(tier=a.tier, seed=seed, args=a)
        except Exception:
            traceback.print_exc()
            print(f"HARNESS-ERROR property={pid}")
            return 2

    return standard_main(prop, pid, a, seed, t0)


def standard_main(prop, pid, a, seed, t0, extra_results=None):
    pname = pid.lower()
    ncpu = os.cpu_count() or 4
    S = a.shards or max(1, min(14, ncpu - 2))
    total = a.examples if a.examples is not None else prop.BUDGET[a.tier]
    per = (total + S - 1) // S if total else 0
    merged = dict(evaluations=0, nontrivial=set(), labels=collections.Counter(), clauses=collections.Counter(),
                  buckets={}, samples=[], enum_total=0)
    errors = []

    def merge(r):
        if "error" in r:
            errors.append(r["error"])
            return
        merged["evaluations"] += r["evaluations"]
        merged["nontrivial"].update(r["nontrivial"])
        merged["labels"].update(r["labels"])
        merged["clauses"].update(r["clauses"])
        merged["enum_total"] = max(merged["enum_total"], r.get("enum_total", 0))
        if len(merged["samples"]) < 4:
            merged["samples"].extend(r["samples"][: 4 - len(merged["samples"])])
        for sig, b in r["buckets"].items():
            m = merged["buckets"].get(sig)
            if m is None:
                merged["buckets"][sig] = dict(b)
            else:
                m["count"] += b["count"]
                if b["size"] < m["size"]:
                    m.update(case=b["case"], msg=b["msg"], size=b["size"])

    # 0. regression corpus (shrunk failures from development and from the sensitivity audit)
    reg_dir = os.path.join(REGRESS, pid)
    reg_n = 0
    # (VERIF_NO_CORPUS: sensitivity experiments only -- "does the generated search find it without being told?")
    if os.path.isdir(reg_dir) and not os.environ.get("VERIF_NO_CORPUS"):
        col = Collector(prop)
        for fn in sorted(os.listdir(reg_dir)):
            if fn.endswith(".json"):
                try:
                    case = json.load(open(os.path.join(reg_dir, fn)))
                    if isinstance(case, dict) and "case" in case and "signature" in case:
                        case = case["case"]
                    col.run(case)
                    reg_n += 1
                except Exception as e:
                    errors.append(f"regress {fn}: {type(e).__name__}: {e}\n{traceback.format_exc()}")
        merge(col.export())

    jobs = [(pname, a.tier, seed, i, S, per) for i in range(S)]
    ctx = mp.get_context("fork")
    with ctx.Pool(S) as pool:
        for r in pool.imap_unordered(_shard_main, jobs):
            merge(r)
        if extra_results:
            for r in extra_results:
                merge(r)
        if errors:
            for e in errors[:2]:
                print(e[:3000], file=sys.stderr); print("...", e[-2500:], file=sys.stderr)
            print(f"HARNESS-ERROR property={pid} ({len(errors)} shard errors)")
            return 2

        # shrink every bucket's smallest case
        budget = 0 if a.no_shrink else (400 if a.tier == "quick" else 3000)
        known = {f["signature"]: f for f in load_known(pid)}
        sjobs = [(pname, sig, b["case"], budget if sig not in known else min(budget, 60))
                 for sig, b in sorted(merged["buckets"].items())]
        shrunk = {}
        for sig, small, msg, evals in pool.imap_unordered(_shrink_main, sjobs):
            shrunk[sig] = (small, msg, evals)

    os.makedirs(os.path.join(OUT, pid), exist_ok=True)
    for fn in os.listdir(os.path.join(OUT, pid)):
        if fn.endswith(".json"):
            os.unlink(os.path.join(OUT, pid, fn))
    viol_lines = []
    known_lines = []
    nviol = 0
    bucket_report = []
    for sig, b in sorted(merged["buckets"].items()):
        small, msg, evals = shrunk[sig]
        h = hashlib.sha1(sig.encode()).hexdigest()[:10]
        path = os.path.join(OUT, pid, f"{h}.json")
        with open(path, "w") as f:
            json.dump({"property": pid, "signature": sig, "message": msg, "count": b["count"], "case": small}, f,
                      ensure_ascii=False, indent=1)
        bucket_report.append({"signature": sig, "count": b["count"], "message": msg[:300], "known": sig in known})
        if sig in known:
            known_lines.append(f"KNOWN-FINDING: property={pid} {known[sig]['what']} [signature={sig} hits={b['count']}]")
        else:
            nviol += 1
            print(f"violation detail: property={pid} signature={sig} hits={b['count']} :: {msg[:400]}")
            viol_lines.append(f"VIOLATION property={pid} replay={path}")

    # open known findings whose saved replay still reproduces are reported even if the random search missed them
    for sig, f in known.items():
        if sig in merged["buckets"]:
            continue
        rp = f.get("replay")
        if rp and os.path.exists(os.path.join(HERE, rp)):
            try:
                _, out = replay_file(prop, os.path.join(HERE, rp))
                if any(v.sig == sig for v in out.violations):
                    known_lines.append(f"KNOWN-FINDING: property={pid} {f['what']} [signature={sig} replay={rp}]")
            except Exception as e:
                print(f"(known finding replay failed: {e})", file=sys.stderr)

    wall = time.time() - t0
    nontriv = len(merged["nontrivial"])
    ev = {
        "property_id": pid,
        "tier": a.tier,
        "seed": seed,
        "level": getattr(prop, "LEVEL", "exploration"),
        "coverage": {
            "evaluations": merged["evaluations"],
            "distinct_nontrivial": nontriv,
            "rule": prop.RULE,
            "samples": [_trim(s) for s in merged["samples"][:3]],
            "labels": dict(sorted(merged["labels"].items(), key=lambda kv: -kv[1])[:60]),
            "clause_evaluations": dict(merged["clauses"]),
            "enumerated_cases": merged["enum_total"],
            "regression_cases_replayed": reg_n,
            "shards": S,
            "buckets": bucket_report,
            "exhaustive": bool(getattr(prop, "EXHAUSTIVE", {}).get(a.tier, False)) if merged["enum_total"] else False,
        },
        "assumptions": list(getattr(prop, "ASSUMPTIONS", [])),
        "wall_s": round(wall, 2),
        "violations": nviol,
    }
    if hasattr(prop, "EXHAUSTIVE_NOTE") and merged["enum_total"]:
        ev["coverage"]["exhaustive_note"] = prop.EXHAUSTIVE_NOTE
    if not os.environ.get("VERIF_NO_EVIDENCE"):  # set by tools/seedeval.py when a check runs against a deliberately broken copy
        os.makedirs(EVID, exist_ok=True)
        with open(os.path.join(EVID, f"{pid}.json"), "w") as f:
            json.dump(ev, f, ensure_ascii=False, indent=1)

    for ln in known_lines:
        print(ln)
    for ln in viol_lines:
        print(ln)
    print(f"{pid} {a.tier}: evaluations={merged['evaluations']} distinct_nontrivial={nontriv} "
          f"buckets={len(merged['buckets'])} violations={nviol} wall={wall:.1f}s")
    if nviol:
        return 1
    if nontriv < 2:
        print(f"HARNESS-ERROR property={pid} generator produced <2 non-trivial cases: inconclusive")
        return 2
    mins = getattr(prop, "REQUIRED_LABELS", None)
    if mins:
        missing = [lab for lab in mins if merged["labels"].get(lab, 0) == 0]
        if missing:
            print(f"HARNESS-ERROR property={pid} label classes never generated: {missing[:10]}")
            return 2
    return 0


def _trim(x, limit=2500):
    s = json.dumps(x, ensure_ascii=False)
    if len(s) <= limit:
        return x
    return {"truncated_json": s[:limit] + "…"}


if __name__ == "__main__":
    sys.exit(main())
