"""Per-property manifest text. Keep in step with DESIGN.md section 4."""

NOT_APPLICABLE = {}

CHECKS = {
    "C01": dict(
        technique="property-based testing (Hypothesis generators over abstract forms) with a validity-predicate oracle (libxml2 namespace-aware parse + skeleton check)",
        text="Generated-input search: thousands of random forms per run (all question types, nesting, languages, settings, adversarial text) are converted in both pretty_print modes and every output is parsed by libxml2 in namespace mode and checked against the ODK skeleton. Exploration is the honest level: the input space is unbounded and the oracle needs no model of pyxform.",
        design_ref="DESIGN.md §4 C01",
        note="Trusts lxml/libxml2 as XML arbiter and the abstract-form generator's coverage (label histogram in evidence). Containers other than dict are covered by C12.",
    ),
}
