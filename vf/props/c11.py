"""C11 -- settings reach the form header verbatim."""

from __future__ import annotations

import os
import shutil
import tempfile

from hypothesis import strategies as st

from vf import common, gen, model, render, xform
from vf.ref import expect, refs
from vf.runner import Outcome, crash_sig
from vf.xform import H, JR, ODK, ORX, XF, q

ID = "C11"
LEVEL = "exploration"
RULE = ("Hypothesis-generated minimal surveys x every subset of the settings columns with unique adversarial values, every alias "
        "spelling (form_id/id_string/set_form_id, form_title/title/set_form_title, header case), with/without form_name and "
        "default_language arguments, dict (in-memory) vs Markdown file path delivery with odd file stems; non-trivial = >=3 settings "
        "set and >=1 non-canonical alias or a path delivery; distinct by SHA-1 of the case JSON")
ASSUMPTIONS = ["every generated setting value is a unique string, so leakage into another place is detectable by substring search"]
BUDGET = {"quick": 10000, "thorough": 300000}

ALIAS = {"form_title": ["title", "set_form_title", "Form Title", "FORM_TITLE"], "form_id": ["id_string", "set_form_id", "Form ID", "form_id "],
         "version": ["Version"], "style": ["Style"], "submission_url": ["Submission URL", "submission_url"], "instance_name": ["Instance Name"],
         "public_key": ["Public Key"], "name": ["Name"], "omit_instanceID": ["Omit_InstanceID", "omit_instanceid", "OMIT_INSTANCEID", "omit instanceID"]}
STEMS = ["data", "my form", "a.b", "Survey_2024", "x-y", "ünï"]


@st.composite
def _cases(draw):
    prof = dict(gen.PROFILES["settings"], p_entities=0, p_external=0, p_multilang=0.3)
    g = gen.G(draw, prof)
    form = gen.build_form(draw, prof, g=g)
    s = {}
    P = lambda x=0.5: g.p("_", x)  # noqa: E731
    uniq = lambda tag: f"{tag}{g.integer(1000, 9999)}"  # noqa: E731
    if P():
        s["form_title"] = uniq("Title ") + g.adv(max_size=3, allow_ws_ctl=False)
    if P():
        s["form_id"] = uniq("fid_")
    if P():
        s["version"] = g.pick([uniq("v"), str(g.integer(2020010100, 2029123199)), "1.0." + str(g.integer(0, 99))])
    if P(0.3):
        s["name"] = uniq("root")
    if P(0.4) and g.names:
        refd = g.pick(g.names)
        s["instance_name"] = "concat(${%s}, '%s')" % (refd, uniq("in"))
        if P(0.2):
            s["instance_name"] = s["instance_name"].replace(", ", g.pick([",\n", ",\t", ",\r\n"]))     # an expression laid out over several lines
        if "name" not in s and P(0.25):
            s["name"] = refd      # a question may be called like the form; ${name} still means the question
    if P(0.4):
        s["submission_url"] = f"https://example.com/{uniq('sub')}?a=1&b=2"
    if P(0.3):
        s["public_key"] = uniq("MIIBIjANBg")
        if P(0.25):
            s["public_key"] += g.pick(["\n", "\r\n", "\t"]) + uniq("kq8A")      # a key pasted as wrapped base64
    if P(0.3):
        s["auto_send"] = g.pick(["true", "false"])
    if P(0.3):
        s["auto_delete"] = g.pick(["true", "false"])
    if P(0.4):
        s["style"] = g.pick(["pages", "theme-grid", "pages theme-grid"]) + " " + uniq("cls")
    if P(0.4):
        pre = g.pick(["esri", "aa", "x1"])
        s["namespaces"] = f'{pre}="http://example.org/{uniq("ns")}{g.pick(["", "", "?v=1", ";a=b=c", "#", "#v1"])}"' + (f' bb="http://b.example/{uniq("ns")}"' if P() else "")
        if P(0.7):
            s[f"attribute::{pre}:thing"] = uniq("attrval")
        if P(0.4):
            # an attribute of the author's namespace whose local name is one the converter sets itself (id, version, ...): both are kept
            s[f"attribute::{pre}:{g.pick(['id', 'version', 'prefix', 'delimiter'])}"] = uniq("pattr")
    if P(0.3):
        s["attribute::plain"] = uniq("plainattr") + g.adv(max_size=2, allow_ws_ctl=False)
    if P(0.2):
        s["instance_xmlns"] = f"http://example.org/{uniq('xmlns')}"
    if P(0.15) and "public_key" not in s:
        s["omit_instanceID"] = g.pick(["yes", "true", "TRUE"])
    if P(0.15):
        s["prefix"] = uniq("px")
    if P(0.15):
        s["delimiter"] = g.pick(["+", ";", "#"])
    if form.get("_langs") and P(0.4):
        s["default_language"] = g.pick(form["_langs"])
    both_ids = False
    if "form_id" in s and P(0.15):
        s["id_string"] = uniq("ids_")     # both columns: form_id is the documented winner, whichever column comes first
        both_ids = True
    if P(0.15):
        # custom attributes that collide with the standard ones: the standard ones win
        for std, col in (("version", "attribute::version"), ("form_id", "attribute::id"), ("prefix", "attribute::odk:prefix"), ("delimiter", "attribute::odk:delimiter")):
            if std in s and P(0.5):
                s[col] = uniq("custom")
    keys = list(s)
    keys = g.shuffled(keys)
    form["settings"] = {k: s[k] for k in keys}
    c = {"form": form}
    if P(0.5):
        c["alias"] = {k: g.pick(v) for k, v in ALIAS.items() if k in s and P(0.5) and not (both_ids and k == "form_id")}
    if P(0.12) and form.get("settings"):
        # a CSV file whose settings sheet has an unnamed spacer column between the named ones
        c["csv_spacer"] = g.integer(0, 12)
        c["stem"] = g.pick(STEMS)
        c["suffix"] = ""
    elif P(0.35):
        c["stem"] = g.pick(STEMS)
        # the suffix is only a hint: upper-case, unknown or missing suffixes must still supply the stem
        c["suffix"] = g.pick(["", "", "", "upper", ".txt", "none"])
    if "form_id" in s and not both_ids and P(0.12):
        c["blank_form_id_col"] = True     # the id sits in the id_string column; the form_id column exists but its cell is empty
        c.get("alias", {}).pop("form_id", None)
    if form.get("settings") and P(0.1):
        form["settings_blank_rows"] = g.integer(1, 2)
    if "stem" in c and "csv_spacer" not in c and P(0.3):
        c["md_separator"] = g.pick(["spaced", "plain", "aligned", "left"])
        if P(0.6):
            c["md_separator_only"] = "settings"
    if P(0.3):
        form.setdefault("args", {})["form_name"] = uniq("argname")
    if not form["settings"]:
        del form["settings"]
    return c


def strategy(tier):
    return _cases()


def run_form_of(case):
    form = model.clone(case["form"])
    alias = case.get("alias") or {}
    if form.get("settings") and alias:
        form["settings"] = {alias.get(k, k): v for k, v in form["settings"].items()}
    if case.get("blank_form_id_col") and "form_id" in form.get("settings", {}):
        form["settings"] = {("id_string" if k == "form_id" else k): v for k, v in form["settings"].items()}
        form["settings_header_extra"] = ["form_id"]
    return form


def with_separators(md, style, only=None):
    """Markdown tables usually have a separator row under the header: '|---|---|', '| | --- | --- |', '| |:---|:--:|'"""
    if not style:
        return md
    out = []
    lines = md.split("\n")
    for i, line in enumerate(lines):
        out.append(line)
        # the header row follows the sheet-name row
        if i > 0 and lines[i - 1].count("|") == 2 and line.startswith("| |") and (only is None or lines[i - 1].strip("| ").lower() == only):
            n = line.count("|") - 2
            cell = {"spaced": " --- ", "plain": "---", "aligned": ":---:", "left": ":---"}[style]
            out.append("| |" + "|".join(cell for _ in range(n)) + "|")
    return "\n".join(out)


def use_md(form):
    return render.md_ok(form) and not form.get("settings_blank_rows")


def _suffix(case, normal):
    sfx = case.get("suffix") or ""
    return {"": normal, "upper": normal.upper(), "none": ""}.get(sfx, sfx)


def file_stem(case):
    import pathlib

    if "csv_spacer" in case:
        return case["stem"]
    ext = ".md" if use_md(run_form_of(case)) else ".xlsx"
    return pathlib.Path(case["stem"] + _suffix(case, ext)).stem


def run(case):
    form = run_form_of(case)
    args = {k: v for k, v in form.get("args", {}).items() if k in ("form_name", "default_language")}
    if "stem" in case:
        d = tempfile.mkdtemp(prefix="vf_c11_")
        try:
            if "csv_spacer" in case:
                sheets = render.sheets_of(form)
                cols = {}
                for name, head, rows in sheets:
                    if name.lower() == "settings" and head:
                        hh = list(head)
                        hh.insert(case["csv_spacer"] % (len(hh) + 1), None)
                        cols[name] = hh
                path = os.path.join(d, case["stem"] + ".csv")
                with open(path, "w", encoding="utf-8", newline="") as f:
                    f.write(render.csv_of_sheets(sheets, cols=cols))
            elif use_md(form) and case.get("force_route") != "xlsx":
                path = os.path.join(d, case["stem"] + _suffix(case, ".md"))
                with open(path, "w", encoding="utf-8") as f:
                    f.write(with_separators(render.to_md(form), case.get("md_separator"), only=case.get("md_separator_only")))
            else:
                path = os.path.join(d, case["stem"] + _suffix(case, ".xlsx"))
                with open(path, "wb") as f:
                    f.write(render.to_xlsx(form))
            from pyxform.errors import PyXFormError
            from pyxform.xls2xform import convert
            try:
                return "ok", convert(path, **args)
            except PyXFormError as e:
                return "rejected", e
            except Exception as e:  # noqa: BLE001
                return "crash", e
        finally:
            shutil.rmtree(d, ignore_errors=True)
    return common.run_workbook(model.to_workbook_dict(form), **args)


def evaluate(case) -> Outcome:
    out = Outcome()
    r = run(case)
    if r is None:
        out.label("md-cannot-carry")
        return out
    status, res = r
    if status == "crash":
        out.label("outcome:crash:" + crash_sig(res))
        return out
    if status == "rejected":
        out.label("outcome:rejected:" + common.err_class(res))
        # the form name is only the root element's name: calling the form like one of its questions must not change the verdict
        nm = case["form"].get("settings", {}).get("name")
        if nm is not None and any(n["c"].get("name") == nm for n, _ in model.walk(case["form"]["nodes"])):
            other = model.clone(case)
            other["form"]["settings"]["name"] = "zz_other_root_name"
            r2 = run(other)
            out.checked("C11.root-name")
            if r2 is not None and r2[0] == "ok":
                out.fail("C11.root-name", "name-of-a-question", f"rejected only because the form is called like its question {nm!r}: {res}")
        # every settings value this generator writes is a documented, valid one: a form that converts without its settings sheet
        # must convert with it
        if case["form"].get("settings"):
            bare = model.clone(case)
            kept = {k: v for k, v in bare["form"]["settings"].items() if k in ("default_language",)}
            bare["form"]["settings"] = kept
            for k in ("alias", "blank_form_id_col"):
                bare.pop(k, None)
            if "stem" in case and "csv_spacer" not in case and not use_md(run_form_of(case)):
                bare["force_route"] = "xlsx"      # (the same container as the original)
            if not kept:
                del bare["form"]["settings"]
                bare["form"].pop("settings_blank_rows", None)
            r3 = run(bare)
            out.checked("C11.settings-accepted")
            if r3 is not None and r3[0] == "ok":
                out.fail("C11.settings-accepted", common.err_class(res)[:50], f"converts without its settings sheet, refused with it: {res}; settings {case['form']['settings']}")
        return out
    out.label("outcome:accepted")
    try:
        v = xform.XFormView(res.xform)
    except xform.IllFormed:
        out.label("unparseable (C01's business)")
        return out
    if v.primary is None:
        return out
    form = case["form"]
    s = {k: common.smart(val) for k, val in form.get("settings", {}).items()}
    stem = case.get("stem")
    if stem is not None:
        # file containers (every one of them): cells are trimmed and non-breaking spaces read as spaces (documented, see C12)
        as_md = use_md(run_form_of(case))
        s = {k: val.replace("\xa0", " ").strip() for k, val in s.items()}
    exp_id = s.get("form_id", file_stem(case) if stem is not None else "data")
    exp_title = s.get("form_title", exp_id)
    exp_root = s.get("name") or form.get("args", {}).get("form_name") or "data"
    prim = v.primary
    pa = xform.attrs(prim)
    places = {}  # place -> actual string (for the leakage check)

    def eq(clause, tag, got, want):
        out.checked(clause)
        if got != want:
            out.fail(clause, tag, f"{tag}: got {got!r}, expected {want!r}")

    eq("C11.title", "title", v.title.text if v.title is not None else None, exp_title)
    eq("C11.root-name", "root-name", xform.local(prim), exp_root)
    eq("C11.id", "id", pa.get("id"), exp_id)
    eq("C11.version", "version", pa.get("version"), s.get("version"))
    eq("C11.prefix-delimiter", "prefix", pa.get("odk:prefix"), s.get("prefix"))
    eq("C11.prefix-delimiter", "delimiter", pa.get("odk:delimiter"), s.get("delimiter"))
    want_ns = s.get("instance_xmlns", XF)
    eq("C11.instance-xmlns", "xmlns", xform.ns_of(prim), want_ns)
    # submission
    sub = v.submission
    any_sub = any(k in s for k in ("submission_url", "public_key", "auto_send", "auto_delete"))
    out.checked("C11.submission")
    if any_sub != (sub is not None):
        out.fail("C11.submission", "presence", f"submission element {'missing' if any_sub else 'unexpected'}")
    elif sub is not None:
        sa = xform.attrs(sub)
        want = {}
        if "submission_url" in s:
            want["action"] = s["submission_url"]
            want["method"] = "post"
        if "public_key" in s:
            want["base64RsaPublicKey"] = s["public_key"]
        if "auto_send" in s:
            want["orx:auto-send"] = s["auto_send"]
        if "auto_delete" in s:
            want["orx:auto-delete"] = s["auto_delete"]
        if sa != want:
            k = next(iter(sorted(set(sa.items()) ^ set(want.items()))))[0]
            out.fail("C11.submission", "attr:" + k, f"submission attributes {sa}, expected {want}")
    eq("C11.style", "body-class", v.body.get("class") if v.body is not None else None, s.get("style"))
    # namespaces / attribute::
    out.checked("C11.namespaces")
    nsmap = v.root.nsmap
    if "namespaces" in s:
        for pair in s["namespaces"].split():
            pre, _, uri = pair.partition("=")
            uri = uri.strip("\"'")
            if nsmap.get(pre) != uri:
                out.fail("C11.namespaces", "declared", f"prefix {pre}: {nsmap.get(pre)!r}, expected {uri!r}")
    for k, val in s.items():
        if k.startswith("attribute::"):
            an = k[len("attribute::"):]
            if an in ("id", "version", "odk:prefix", "odk:delimiter") and {"id": "form_id", "version": "version", "odk:prefix": "prefix", "odk:delimiter": "delimiter"}[an] in s:
                continue  # the setting wins over a custom attribute of the same name (checked by the id/version/prefix clauses)
            out.checked("C11.attribute")
            if ":" in an:
                pre, loc = an.split(":", 1)
                got = prim.get(f"{{{nsmap.get(pre)}}}{loc}")
            else:
                got = prim.get(an)
            # (smart quotes are straightened in plain settings cells but not in attribute:: cells; both are 'verbatim' enough)
            if got is None or common.smart(got) != val:
                out.fail("C11.attribute", "value", f"instance attribute {an}: {got!r}, expected {val!r}")
    # instanceID / instanceName
    meta = next((e for e in xform.elems(prim) if xform.local(e) == "meta"), None)
    kids = [xform.local(e) for e in xform.elems(meta)] if meta is not None else []
    omit = s.get("omit_instanceID") in expect.YES
    out.checked("C11.instanceID")
    bm = v.bind_map()
    rp = "/" + exp_root
    if omit == ("instanceID" in kids) or omit == (f"{rp}/meta/instanceID" in bm):
        out.fail("C11.instanceID", "omit" if omit else "missing", f"omit_instanceID={s.get('omit_instanceID')!r} but meta children {kids}, bind present: {f'{rp}/meta/instanceID' in bm}")
    out.checked("C11.instance-name")
    if ("instance_name" in s) != ("instanceName" in kids):
        out.fail("C11.instance-name", "presence", f"instance_name {'set' if 'instance_name' in s else 'unset'} but meta children {kids}")
    elif "instance_name" in s:
        b = bm.get(f"{rp}/meta/instanceName")
        calc = b[0].get("calculate") if b else None
        if calc is None or refs.match_substituted(s["instance_name"], calc) is None:
            out.fail("C11.instance-name", "calculate", f"instanceName calculate {calc!r}, expected {s['instance_name']!r} substituted")
    # leakage: each unique value may appear only at its own place in the header
    places = {"title": v.title.text or "" if v.title is not None else "", "root": " ".join(f"{k}={val}" for k, val in pa.items()),
              "root-name": xform.local(prim), "submission": " ".join(f"{k}={val}" for k, val in (xform.attrs(sub) if sub is not None else {}).items()),
              "body-class": (v.body.get("class") or "") if v.body is not None else "", "nsmap": " ".join(str(x) for x in nsmap.values())}
    own = {"form_title": {"title"}, "form_id": {"root", "title"} if "form_title" not in s else {"root"}, "version": {"root"},
           "name": {"root-name"}, "submission_url": {"submission"}, "public_key": {"submission"}, "style": {"body-class"},
           "prefix": {"root"}, "instance_xmlns": {"nsmap", "root"}}
    out.checked("C11.no-leak")
    for k, allowed in own.items():
        if k in s and len(s[k]) >= 6:
            for place, text in places.items():
                if place not in allowed and s[k] in text:
                    out.fail("C11.no-leak", f"{k}->{place}", f"setting {k}={s[k]!r} also appears in {place}: {text!r}")
    out.nontrivial = len(s) >= 3 and (bool(case.get("alias")) or "stem" in case)
    out.label("delivery:" + ("path" if "stem" in case else "dict"))
    for k in (case.get("alias") or {}):
        out.label("alias:" + k)
    return out
