#!/bin/sh
# Offline setup: make sure /venv/bin/python can import what the checks need.
# Everything is installed from the local wheelhouse; nothing is fetched.
HERE="$(cd "$(dirname "$0")" && pwd)"
PY=/venv/bin/python
WH=/opt/veriftools/wheels
mkdir -p "$HERE/.deps" "$HERE/evidence" "$HERE/out"
need=""
for m in hypothesis lxml openpyxl xlrd; do
  PYTHONPATH="$HERE/.deps" $PY -c "import $m" 2>/dev/null || need="$need $m"
done
if [ -n "$need" ]; then
  PIP_NO_INDEX=1 $PY -m pip install --quiet --no-index --find-links "$WH" --target "$HERE/.deps" $need || {
    echo "setup: could not install:$need" >&2; exit 1; }
fi
# atheris is optional (thorough tier of C01/C17 only)
PYTHONPATH="$HERE/.deps" $PY -c "import atheris" 2>/dev/null || \
  PIP_NO_INDEX=1 $PY -m pip install --quiet --no-index --find-links "$WH" --target "$HERE/.deps" atheris 2>/dev/null || \
  echo "setup: atheris not available (optional)" >&2
PYTHONPATH="$HERE/.deps" $PY -c "import hypothesis, lxml, openpyxl, xlrd; print('setup ok: hypothesis', hypothesis.__version__)"
