"""Hypothesis strategies that build abstract forms *by construction*.

All randomness comes from Hypothesis (`draw`).  Nothing here imports pyxform.
A profile is a dict of weights; see PROFILES at the bottom.
"""

from __future__ import annotations

from hypothesis import strategies as st

from vf import model

# ------------------------------------------------------------------ alphabets

ADV_ATOMS = [
    "a", "b", "Z", "1", " ", "  ", "<", ">", "&", '"', "'", "]]>", "<!--", "-->", "&amp;", "&lt;", "&#x41;", "&#65;",
    "<b>", "</b>", "<x/>", "{", "}", "$", "%", "\\", "#", "|", "é", "ß", "😀", "𝔘", "مرحبا", "שלום", "é", " ",
    "‍", "‏", "=", ";", ",", "/", "?", "*", "+", "(", ")", "[", "]", "~", "`", "^", "_", "-", ":", ".", "@", "!",
    "‘", "’", "“", "”", "<![CDATA[", "&unknown;", "\t", "\n", "\r\n", "\r", "instance(", " instance( ", "pulldata(", "instance('x",
]
PLAIN_ATOMS = ["a", "b", "c", "Q", "x", "1", "2", " ", "é", "-", "_", "."]
WORDS = ["alpha", "beta", "gamma", "delta", "omega", "sigma", "kappa", "zeta"]

LANGS = ["English (en)", "French (fr)", "es", "Klingon", "default", "English", "French", "O’zbek (uz)", "Chinese (Simplified) (zh)"]

NAME_PREFIX = ["q", "a", "x_", "n-", "v.", "é", "_", "Q", "k9", "guidance_hint_", "hint", "label_", "q_guidance_hint", "group_", "repeat_", "meta_", "jr_", "É", "Ö", "À", "Øx", "ÿ", "𠮷", "नाम", "ชื่อ", "col·legi", "cafe\u0301"]


_INSTANCE_CALL = __import__("re").compile(r"""instance\(\s*("[^"]*"|'[^']*')\s*\)""")


def _bad_plain(s: str) -> bool:
    """plain text must not contain what the documentation gives a meaning inside text: a ${reference} or a complete instance('id') call
    (the bare words 'instance(' are text)"""
    return "${" in s or bool(_INSTANCE_CALL.search(_straight(s)))


def _straight(s: str) -> str:
    """smart quotes are straightened in survey cells (documented), so they can close a quoted id as well"""
    return s.replace("‘", "'").replace("’", "'").replace("“", '"').replace("”", '"')


@st.composite
def adv_text(draw, atoms=ADV_ATOMS, min_size=1, max_size=7, allow_ws_ctl=True):
    parts = draw(st.lists(st.sampled_from(atoms), min_size=min_size, max_size=max_size))
    s = "".join(parts)
    if not allow_ws_ctl:
        s = s.replace("\t", " ").replace("\n", " ").replace("\r", " ")
    if not s.strip() or _bad_plain(s):
        s = "t" + s.replace("${", "$ {").replace("instance(", "instance (")
    return s


# ------------------------------------------------------------------ builder


class G:
    """Stateful form builder around a Hypothesis `draw`."""

    def __init__(self, draw, P):
        self.draw = draw
        self.P = P
        self.n = 0
        self.names = []          # names of questions usable as ${ref} targets (leaf questions)
        self.visible = []        # names usable as trigger sources (visible leaf questions)
        self.sections = []       # group/repeat names
        self.repeats = []
        self.in_repeat_names = {}  # name -> innermost repeat name
        self.repeat_parent = {}    # repeat name -> the repeat that encloses it
        self.langs = []
        self.lists = []
        self.ext_lists = []
        self.uses_ext_choices = False
        self.entities = None
        self.rows = 0
        self.txtn = 0
        self.search_lists = set()
        self.plain_lists = set()
        self._used_tags = set()
        self.osm_rows = []

    # -- primitives.  Every random choice is read from byte blocks drawn from Hypothesis
    # (one `st.binary` draw per 1024 bytes): ~40x cheaper than one draw per decision, and a
    # run stays a pure function of the Hypothesis seed.
    _buf = b""
    _pos = 0

    def _u16(self):
        if self._pos + 2 > len(self._buf):
            self._buf = self.draw(st.binary(min_size=1024, max_size=1024))
            self._pos = 0
        v = self._buf[self._pos] << 8 | self._buf[self._pos + 1]
        self._pos += 2
        return v

    def p(self, key, default=0.0):
        v = self.P.get(key, default)
        if v <= 0:
            return False
        if v >= 1:
            return True
        return self._u16() < v * 65536

    def pick(self, xs):
        xs = xs if isinstance(xs, (list, tuple)) else list(xs)
        return xs[self._u16() % len(xs)]

    def integer(self, a, b):
        return a + self._u16() % (b - a + 1)

    def adv(self, atoms=ADV_ATOMS, min_size=1, max_size=7, allow_ws_ctl=True):
        k = self.integer(min_size, max_size)
        s = "".join(self.pick(atoms) for _ in range(k))
        if not allow_ws_ctl:
            s = s.replace("\t", " ").replace("\n", " ").replace("\r", " ")
        if not s.strip() or _bad_plain(s):
            s = "t" + s.replace("${", "$ {").replace("instance(", "instance (")
        return s

    def shuffled(self, xs):
        xs = list(xs)
        for i in range(len(xs) - 1, 0, -1):
            j = self._u16() % (i + 1)
            xs[i], xs[j] = xs[j], xs[i]
        return xs

    TAG_NAMES = ["item", "text", "value", "input", "group", "repeat", "model", "instance", "bind", "root", "select", "select1", "range",
                 "trigger", "upload", "hint", "output", "label", "body", "head", "title", "html", "itext", "translation", "setvalue", "name"]

    def name(self, prefix=None):
        if prefix is None and self.P.get("p_tag_names", 0) and self.p("p_tag_names"):
            free = [t for t in self.TAG_NAMES if t not in self._used_tags]
            if free:
                t = self.pick(free)
                self._used_tags.add(t)
                return t
        self.n += 1
        pre = prefix if prefix is not None else (self.pick(NAME_PREFIX) if self.p("odd_names", 0.3) else "q")
        return f"{pre}{self.n}"

    def text(self, tag="t"):
        mode = self.P.get("text", "adv")
        if mode == "plain":
            self.txtn += 1
            return f"{tag}{self.txtn} " + self.pick(WORDS)
        ctl = self.P.get("text_ctl", True)
        if mode == "uniq":
            self.txtn += 1
            tail = self.adv(max_size=3, allow_ws_ctl=ctl) if self.p("p_adv_tail", 0.5) else ""
            return f"{tag}{self.txtn}" + (" " + tail if tail else "")
        return self.adv(allow_ws_ctl=ctl)

    def text_with_refs(self, tag="t"):
        if self.names and self.P.get("p_refs_only", 0) and self.p("p_refs_only"):
            # nothing but references, back to back
            return self.pick(["", "", " ", "  "]).join("${%s}" % self.pick(self.names) for _ in range(self.integer(1, 3)))
        s = self.text(tag)
        if self.names and self.p("p_text_ref", 0.25):
            k = self.integer(1, 2)
            for _ in range(k):
                r = ("${last-saved#%s}" if self.p("p_last_saved", 0.0) else "${%s}") % self.pick(self.names)
                pos = self.pick(["pre", "post", "mid"])
                if pos == "pre":
                    s = r + self.pick(["", " "]) + s
                elif pos == "post":
                    s = s + self.pick(["", " "]) + r
                else:
                    s = s + " " + r + " " + self.text(tag)
        if _INSTANCE_CALL.search(_straight(s)):
            s = s.replace("instance(", "instance (")     # pieces that only together spell a complete instance('id') call
        return s

    # -- translated cells
    def put_translated(self, cells, col, maker, p_lang=None):
        """fill `col` plain and/or per language."""
        if p_lang is None:
            use = bool(self.langs) and self.p("p_translate", 0.7)
        else:
            use = bool(self.langs) and bool(p_lang)
        if use:
            holes = self.P.get("p_hole", 0.25)
            some = False
            for lg in self.langs:
                if not self.p("_", 1 - holes):
                    continue
                cells[f"{col}::{lg}"] = maker()
                some = True
            if self.p("p_plain_too", 0.15) or not some:
                cells[col] = maker()
        else:
            cells[col] = maker()

    # -- expressions
    def lit(self):
        self.txtn += 1
        if self.P.get("p_lit_ws", 0) and self.p("p_lit_ws"):
            # a string literal typed over two lines or with a tab (Alt+Enter in a spreadsheet cell)
            return f"'k{self.txtn}" + self.pick(["\n", "\t", "\n\n", " \n ", "\r\n", "\r"]) + "z'"
        return f"'k{self.txtn}'"

    def expr(self, ctx=None, kind="bool"):
        """an XPath-ish expression with 0..2 references; always unique thanks to a literal."""
        nm = self.names
        r = lambda: "${%s}" % self.pick(nm)  # noqa: E731
        L = self.lit()
        if not nm or not self.p("p_ref", 0.7):
            return self.pick([f". != {L}", f"string-length(.) > {self.integer(0, 9)} or . = {L}", f"{L} = {L}",
                              f"regex(., {L})", f"true() and {L} != ''"])
        choices = [
            lambda: f"{r()} = {L}",
            lambda: f"{r()} != '' and {L} != ''",
            lambda: f"selected({r()}, {L}) and {r()} > {self.integer(0, 9)}",
            lambda: f"concat({r()}, {L}) != ''",
            lambda: f"string-length({r()}) > 2 or {L} = ''",
            lambda: f"{r()} + {r()} * 2 > {self.integer(0, 99)} or {L}",
            lambda: f"if({r()} = {L}, 'y', 'z') = 'y'",
            lambda: f"not({r()} = {L})",
            lambda: f"{r()}={L}",
            lambda: f"({r()}) = {L}",
        ]
        if self.repeats and self.p("p_count", 0.3):
            rp = self.pick(self.repeats)
            choices.append(lambda: f"count(${{{rp}}}) > {self.integer(0, 3)} or {L}")
        if self.P.get("p_last_saved", 0) and self.p("p_last_saved"):
            choices = [lambda: "${last-saved#%s} = %s" % (self.pick(nm), L)]
        if self.P.get("p_pulldata", 0) and self.p("p_pulldata"):
            f = self.pick(["fruits", "pd2", "données"])
            sp = self.pick(["", "", " ", "  "])      # XPath allows white space between a function name and its parenthesis
            choices = [lambda: f"pulldata{sp}('{f}', 'c', 'k', {r()}) = {L}"]
            if self.p("_", 0.1):
                choices = [lambda: f"pulldata({r()}, 'c', 'k', {r()}) = {L}"]      # the file itself is named by an answer
        if self.P.get("p_instance_expr", 0) and self.lists and self.p("p_instance_expr"):
            ln = self.pick(self.lists)["name"]
            choices = [lambda: f"instance('{ln}')/root/item[name = {r()}]/label = {L}"]
            if self.p("_", 0.4):
                # predicates nest, and a string literal may hold a bracket
                choices = [lambda: f"instance('{ln}')/root/item[name = instance('{ln}')/root/item[name = {r()}]/name and label != {r()}]/label = {L}",
                           lambda: f"instance('{ln}')/root/item[name != ']' and label = {r()}]/label = {L}",
                           lambda: f"instance('{ln}')/root/item[name = {r()}][label != {r()}]/label = {L}"]
        if self.P.get("p_indexed", 0) and self.p("p_indexed"):
            inrep = [n for n in nm if n in self.in_repeat_names]
            if inrep:
                t = self.pick(inrep)
                rp = self.in_repeat_names[t]
                choices = [lambda: f"indexed-repeat(${{{t}}}, ${{{rp}}}, 1) = {L}",
                           # references before, between and after several calls
                           lambda: f"indexed-repeat(${{{t}}}, ${{{rp}}}, 1) + {r()} > indexed-repeat(${{{t}}}, ${{{rp}}}, 2) or {L}",
                           lambda: f"{r()} = {L} or indexed-repeat(${{{t}}}, ${{{rp}}}, 1) + {r()} + indexed-repeat(${{{t}}}, ${{{rp}}}, 2) + {r()} > 3",
                           # an index argument with parentheses of its own
                           lambda: f"indexed-repeat(${{{t}}}, ${{{rp}}}, count(${{{rp}}}) - (1)) = {L} or {r()} = ''",
                           # a call inside the index argument of another call: each reference belongs to the innermost call around it
                           lambda: f"indexed-repeat(${{{t}}}, ${{{rp}}}, indexed-repeat(${{{self.pick([x for x in inrep if self.in_repeat_names[x] == rp])}}}, ${{{rp}}}, position(..) - 1)) = {L}",
                           lambda: f"indexed-repeat(${{{t}}}, ${{{rp}}}, 1 + indexed-repeat(${{{t}}}, ${{{rp}}}, 1)) = {L} or {r()} = ''"]
                outer = self.repeat_parent.get(rp)
                if outer:
                    # nested repeats: the five-argument form; index arguments may be calls, or mention the same names again
                    choices += [lambda: f"indexed-repeat(${{{t}}}, ${{{outer}}}, position(../..), ${{{rp}}}, 1) = {L}",
                                lambda: f"indexed-repeat(${{{t}}}, ${{{outer}}}, (1), ${{{rp}}}, count(${{{rp}}})) = {L} or {r()} = ''",
                                lambda: f"indexed-repeat(${{{t}}}, ${{{outer}}}, 1, ${{{rp}}}, 2) = {L}"]
        e = self.pick(choices)()
        if ("indexed-repeat(" in e or "instance('" in e) and self.p("_", 0.2):
            # XPath allows white space between a function name and its parenthesis
            sp = self.pick([" ", "  "])
            e = e.replace("indexed-repeat(", "indexed-repeat" + sp + "(").replace("instance('", "instance" + sp + "('")
        return e

    def calc(self):
        nm = self.names
        L = self.lit()
        if not nm or not self.p("p_ref", 0.7):
            return self.pick([f"concat({L}, 'x')", f"1 + {self.integer(0, 99)}", "now()", f"string-length({L})", f"{L}"])
        r = lambda: "${%s}" % self.pick(nm)  # noqa: E731
        base = self.pick([
            lambda: f"concat({r()}, {L})", lambda: f"{r()} + {self.integer(1, 9)}", lambda: f"if({r()} = {L}, {r()}, {L})",
            lambda: f"{r()}", lambda: f"round({r()} div 2, 1) + string-length({L})",
        ])()
        return base

    # -- choice lists
    def make_list(self, nm=None):
        nm = nm or (self.pick(["l", "z", "b", "m", "a"]) if self.P.get("odd_list_names") else "l") + str(len(self.lists) + 1)
        k = self.integer(1, self.P.get("max_choices", 5))
        rows = []
        extra_cols = []
        if self.p("p_extra_cols", 0.3):
            extra_cols = [f"e{j}" for j in range(self.integer(1, 2))]
            if self.p("_", 0.15):
                extra_cols = [self.pick(["_zone", "__rank", "_e"])] + extra_cols[:1]      # legal XML names, whatever Python thinks of underscores
            if self.P.get("extra_col_names") and self.p("_", 0.4):
                extra_cols = [self.pick(self.P["extra_col_names"])]
            if self.P.get("p_tag_names", 0) and self.p("p_tag_names"):
                extra_cols = [self.pick(["item", "text", "root", "group", "input", "instance"])]
        media = self.p("p_choice_media", 0.15)
        translated = bool(self.langs) and self.p("p_translate_choices", 0.6)
        for i in range(k):
            row = {"name": self.pick(["c", "opt", "v-", "k."]) + str(i + 1) if self.p("odd_names", 0.3) else f"c{i + 1}"}
            if self.p("_lab", 1 - self.P.get("p_choice_nolabel", 0.0)):
                if translated:
                    self.put_translated(row, "label", lambda: self.text("cl"), p_lang=True)
                else:
                    row["label"] = self.text_with_refs("cl") if self.p("p_choice_label_ref", 0.0) else self.text("cl")
            if media and self.p("_", 0.6):
                mcol = self.pick(["image", "audio", "video"])
                self.put_translated(row, mcol, lambda: f"m{self.integer(1, 99)}.{self.pick(['png', 'mp3', 'mp4'])}",
                                    p_lang=bool(self.langs) and self.p("_", 0.5))
            for c in extra_cols:
                if self.p("_", 0.7):
                    row[c] = self.text("x")
            rows.append(row)
        lst = {"name": nm, "rows": rows}
        self.lists.append(lst)
        return lst

    def some_list(self, fresh=False):
        usable = [x for x in self.lists if x["name"] not in self.search_lists]
        if not usable or fresh or (len(self.lists) < self.P.get("max_lists", 3) and self.p("_", 0.35)):
            return self.make_list()
        return self.pick(usable)

    # -- questions
    LEAF_BASE = ["text", "integer", "decimal", "note", "date", "time", "dateTime", "geopoint", "geotrace", "geoshape",
                 "barcode", "acknowledge", "image", "audio", "video", "file", "range", "calculate", "hidden",
                 "select_one", "select_multiple", "rank"]
    META = ["start", "end", "today", "deviceid", "phonenumber", "username", "email", "simserial", "subscriberid",
            "start-geopoint", "background-audio"]

    def add_labels(self, c, optional=False):
        """label / hint / guidance / media for a visible row"""
        tw = self.text_with_refs
        has_label = not optional or self.p("_", 0.5)
        if has_label and self.p("_", 0.92):
            self.put_translated(c, "label", lambda: tw("L"))
        need_hint = "label" not in c and not any(k.startswith("label::") for k in c) and not optional
        if need_hint or self.p("p_hint", 0.3):
            self.put_translated(c, "hint", lambda: tw("H"))
        if self.p("p_guidance", 0.1):
            self.put_translated(c, "guidance_hint", lambda: tw("G"))
        if self.p("p_media", 0.1):
            mcol = self.pick(["image", "audio", "video"])
            self.put_translated(c, mcol, lambda: f"f{self.integer(1, 99)}.{self.pick(['jpg', 'wav', 'mp4'])}")
            if mcol == "image" and self.p("_", 0.3):
                # big-image must accompany an image in the same languages
                for k in [k for k in c if k == "image" or k.startswith("image::")]:
                    c["big-" + k] = "big" + c[k]

    def add_logic(self, c, base, inside_repeat):
        P = self.p
        if P("p_relevant", 0.25):
            c["relevant"] = self.pick(["yes", "TRUE", "no", "False"]) if P("p_bool_logic", 0.0) else self.expr()
        if P("p_required", 0.2):
            c["required"] = self.pick(["yes", "true()", "no", "TRUE", "True", "false"]) if P("_", 0.7) else self.expr()
            if P("p_messages", 0.3):
                self.put_translated(c, "required_message", lambda: self.text_with_refs("RM"))
        if P("p_readonly", 0.1):
            c["readonly"] = self.pick(["yes", "no", "true()"]) if P("_", 0.7) else self.expr()
        if base not in ("calculate", "hidden", "note", "acknowledge") and P("p_constraint", 0.2):
            c["constraint"] = self.pick(["yes", "TRUE", "no", "False", "true"]) if P("p_bool_logic", 0.0) else self.expr()
            if P("p_messages", 0.3):
                self.put_translated(c, "constraint_message", lambda: self.text_with_refs("CM"))
        if base not in ("calculate",) and P("p_calc_on_visible", 0.05):
            c["calculation"] = self.calc()
        if P("p_noapp", 0.0) and self.names:
            c["bind::jr:noAppErrorString"] = "no app for ${%s}" % self.pick(self.names)
        if P("p_custom_bind", 0.1):
            c["bind::" + self.pick(["jr:foo", "custom", "odk:x", "orx:y", "tag", "toParseString", "odk:length", "name", "id"])] = self.text("B") if P("_", 0.5) else self.expr()
        if P("p_custom_instance", 0.08):
            c["instance::" + self.pick(["custom", "odk:tag", "jr:z", "tag", "id"])] = self.text_with_refs("I") if self.P.get("p_last_saved", 0) else self.text("I")
        if P("p_custom_body", 0.08) and base not in ("calculate", "hidden"):
            c["body::" + self.pick(["accept", "custom", "jr:q"])] = self.text("Y")

    STATIC_DEFAULTS = {
        "text": ["foo", "bar123", "https://my-site.com", "foo bar", "a.b", "mod", "div", "no mod", "div or mod", "and", "or", "not", "true", "mod.", "div-2"], "integer": ["5", "-3", "0"],
        "decimal": ["1.5", "-0.25"], "date": ["2022-03-14"], "time": ["01:02:55", "01:02:55.000-07:00"],
        "dateTime": ["2022-03-14T01:02:55Z", "2022-03-14T01:02:55+10:00"], "geopoint": ["32.7 -117.1 14 5.01"],
        "note": ["n"], "select_one": ["c1", "mod", "div", "or"], "select_multiple": ["c1 c2", "c1"], "image": ["a.png"], "barcode": ["b77"],
        "range": ["3"], "hidden": ["hv"], "calculate": [], "acknowledge": ["OK"],
    }

    def add_default(self, c, base):
        cls = self.pick(["static", "static", "dyn"]) if self.STATIC_DEFAULTS.get(base) else "dyn"
        if base == "image" and not self.P.get("image_dynamic_default"):
            cls = "static"  # dynamic defaults on image questions: examined by C10 only
        if cls == "static":
            c["default"] = self.pick(self.STATIC_DEFAULTS[base])
        else:
            opts = ["now()", "today()", "uuid()", "1 + 1", "3 mod 3", "concat('a', 'b')", "if(1 = 1, 'a', 'b')",
                    "string-length('x')", "once(random())",
                    # a hyphen in front of what makes the cell an expression (date-like types read a lone hyphen as part of a literal)
                    "1 - today()", "0 - 1 + now()", "(0 - 7) + today()", "2020-01-01 + 1"]
            if self.names:
                opts += ["${%s}" % self.pick(self.names), "${%s} + 1" % self.pick(self.names), "${%s} - 7" % self.pick(self.names),
                         "${%s} - ${%s}" % (self.pick(self.names), self.pick(self.names)),
                         "concat(${%s}, 'z')" % self.pick(self.names), "(0 - 7) + ${%s}" % self.pick(self.names),
                         # a bare path with a predicate
                         "../%s[1]" % self.pick(self.names)]
            c["default"] = self.pick(opts)

    def question(self, depth, inside_repeat, table_list=None):
        P = self.p
        types = self.P.get("types") or self.LEAF_BASE
        base = self.pick(types)
        if table_list is not None and base not in ("select_one", "select_multiple"):
            base = self.pick(["select_one", "select_multiple", "text", "note"])
        if base == "integer" and self.P.get("p_percentage", 0) and self.p("p_percentage"):
            base = "percentage"       # legacy type whose table entry brings a constraint of its own
        c = {}
        nm = self.name()
        tcell = base
        lst = None
        if base in ("select_one", "select_multiple", "rank"):
            if table_list is not None:
                lst = table_list
            else:
                lst = self.some_list()
                # lists used by search() must not be shared with plain selects
                while lst["name"] in self.search_lists:
                    lst = self.make_list()
            tcell = f"{base} {lst['name']}"
            use_search = table_list is None and base in ("select_one", "select_multiple") and self.p("p_search", 0.0)
            if use_search:
                # a list consumed by search() must not be shared with plain selects
                if lst["name"] in self.plain_lists:
                    cands = [x for x in self.lists if x["name"] in self.search_lists]
                    lst = self.pick(cands) if cands and self.p("_", 0.5) else self.make_list()
                    tcell = f"{base} {lst['name']}"
                self.search_lists.add(lst["name"])
            else:
                self.plain_lists.add(lst["name"])
            if base == "select_multiple":
                for r in lst["rows"]:
                    r["name"] = r["name"].replace(" ", "_")
        c["type"] = tcell
        c["name"] = nm
        visible = base not in ("calculate", "hidden")
        if visible:
            self.add_labels(c)
        elif P("p_label_on_hidden", 0.1):
            c["label"] = self.text("L")
        if base == "calculate":
            c["calculation"] = self.pick(["yes", "TRUE", "no", "False", "true", "NO"]) if P("p_bool_logic", 0.0) else self.calc()
        if P("p_logic", 0.5):
            self.add_logic(c, base, inside_repeat)
        if P("p_default", 0.12) and base not in ("rank", "geotrace", "geoshape", "audio", "video", "file"):
            self.add_default(c, base)
        if base in ("select_one", "select_multiple", "rank"):
            can_filter = table_list is None
            or_other = base != "rank" and can_filter and P("p_or_other", 0.1)
            if or_other:
                c["type"] = tcell + " " + self.pick(["or_other"])
                self.n += 0
            elif can_filter and P("p_choice_filter", 0.15):
                cols = [k for r in lst["rows"] for k in r if k.startswith("e")]
                col = self.pick(cols) if cols else "name"
                c["choice_filter"] = (f"{col} = ${{{self.pick(self.names)}}}" if self.names and P("_", 0.7)
                                      else f"{col} != {self.lit()}")
            if P("p_randomize", 0.1):
                c["parameters"] = "randomize=true" + (self.pick(["", " seed=42", " seed=${%s}" % self.pick(self.names) if self.names else ""]))
                if "${" in c["parameters"] and P("_", 0.3):
                    # the documented separators, with white space around them
                    c["parameters"] = c["parameters"].replace(" seed=", self.pick([", seed= ", "; seed= ", ",seed =", " ;  seed=  "]), 1)
        elif base == "range" and P("p_params", 0.5):
            c["parameters"] = self.pick(["start=0 end=5 step=1", "start=1;end=10;step=2", "start=0.5 end=5.5 step=0.5", "end=20", "step=2, start=2",
                                           "start=0.5 end=10 step=1", "step=0.5 end=5", "start=1.5", "end=7.5 step=1", "start=0 end=1 step=0.1",
                                           "start=0.0 end=5 step=1", "start=-5 end=0.0 step=1", "start=0 end=5.0"])
        elif base == "text" and P("p_params", 0.2):
            c["parameters"] = "rows=" + str(self.integer(1, 9))
        elif base == "image":
            if P("p_params", 0.6):
                c["parameters"] = "max-pixels=" + str(self.integer(100, 4000))
                if "appearance" not in c and P("_", 0.3):
                    c["parameters"] += " app=" + self.pick(["com.example.camera", "com.google.android.GoogleCamera", "org.Cam.X1"])
        elif base == "audio" and P("p_params", 0.3):
            c["parameters"] = "quality=" + self.pick(["voice-only", "low", "normal", "external"])
        elif base in ("geopoint", "geotrace", "geoshape") and P("p_params", 0.3):
            opts = ["allow-mock-accuracy=true", "allow-mock-accuracy=false"]
            if base == "geopoint":
                opts += ["capture-accuracy=2.5", "warning-accuracy=10", "capture-accuracy=3 warning-accuracy=12 allow-mock-accuracy=true"]
            c["parameters"] = self.pick(opts)
        if base in ("select_one", "select_multiple") and lst is not None and lst["name"] in self.search_lists and table_list is None:
            c["appearance"] = self.pick(["search('fruits')", "minimal search('fruits')", "search('fruits', 'matches', 'kind', 'x')"])
            c.pop("choice_filter", None)
            if not (self.P.get("p_search_randomize", 0) and c.get("parameters", "").startswith("randomize=true") and "${" not in c.get("parameters", "")):
                c.pop("parameters", None)
            if c["type"].endswith("or_other"):
                c["type"] = tcell
        elif visible and P("p_appearance", 0.15) and table_list is None:
            ap = {"text": ["multiline", "numbers"], "integer": ["thousands-sep"], "select_one": ["minimal", "quick", "likert", "columns-pack"],
                  "select_multiple": ["minimal", "columns"], "date": ["month-year", "no-calendar"], "image": ["annotate", "draw", "signature", "new", "new-front"],
                  "geopoint": ["maps", "placement-map"], "note": ["custom-x"]}.get(base, ["w1", "custom app"])
            c["appearance"] = self.pick(ap)
        if self.entities_enabled and not inside_repeat and base not in ("note",) and P("p_save_to", 0.3):
            c["save_to"] = self.name("p")
        node = {"k": "q", "c": c}
        self.names.append(nm)
        if inside_repeat:
            self.in_repeat_names[nm] = inside_repeat
        if visible and ("label" in c or any(k.startswith("label::") or k == "hint" or k.startswith("hint::") for k in c)):
            if not ("calculation" in c and not any(k.split("::")[0] in ("label", "hint") for k in c)):
                self.visible.append(nm)
        return node

    def trigger_question(self, inside_repeat):
        """a question whose calculation is fired by another question's value change"""
        src = self.pick(self.visible)
        base = self.pick(["text", "integer", "calculate", "dateTime", "background-geopoint", "geopoint", "decimal", "date", "geotrace"])
        nm = self.name()
        c = {"type": base, "name": nm, "trigger": "${%s}" % src}
        if base != "background-geopoint":
            if base == "calculate" or self.p("_", 0.85):
                c["calculation"] = self.calc()
                if self.P.get("p_bool_logic", 0) and self.p("p_bool_logic"):
                    c["calculation"] = self.pick(["yes", "TRUE", "true", "no", "FALSE", "true()"])
            if base != "calculate" and self.p("_", 0.6):
                c["label"] = self.text("L")
            if self.P.get("p_trigger_logic", 0) and self.p("p_trigger_logic"):
                self.add_logic(c, base, inside_repeat)   # columns to the right of the calculation column
        elif self.P.get("p_label_on_hidden", 0) and self.p("_", 0.4):
            c["label"] = self.text("L")      # a label for data dictionaries: a background-geopoint is never shown
        self.names.append(nm)
        if inside_repeat:
            self.in_repeat_names[nm] = inside_repeat
        return {"k": "q", "c": c}

    LEGACY_META = ["start time", "get start time", "end time", "get end time", "get today", "device id", "get device id", "get phone number",
                   "sim id", "get sim id", "subscriber id", "get subscriber id", "uri:deviceid", "uri:username", "uri:email", "uri:phonenumber",
                   "uri:simserial", "uri:subscriberid"]

    def meta_question(self):
        base = self.pick(self.META)
        if self.P.get("p_legacy_meta", 0) and self.p("p_legacy_meta"):
            base = self.pick(self.LEGACY_META)
        c = {"type": base, "name": self.name("m")}
        if base == "background-audio" and self.p("_", 0.4):
            c["parameters"] = "quality=" + self.pick(["voice-only", "low", "normal"])
        return {"k": "q", "c": c}

    def osm_question(self):
        """an OpenStreetMap upload question, with or without a tag list from the osm sheet"""
        c = {"type": "osm", "name": self.name()}
        self.add_labels(c)
        if self.p("_", 0.7):
            ln = self.pick(["otags", "otags2"])
            c["type"] = f"osm {ln}"
            if not any(r["list_name"] == ln for r in self.osm_rows):
                for tname in self.pick([["building"], ["building", "highway"], ["amenity", "building", "name"]]):
                    row = {"list_name": ln, "name": tname}
                    self.put_translated(row, "label", lambda: self.text("OT"), p_lang=bool(self.langs) and self.p("_", 0.6))
                    if self.P.get("p_osm_media", 0) and self.p("p_osm_media"):
                        row[self.pick(["image", "media::image", "audio"])] = f"tag{len(self.osm_rows)}.png"      # the osm sheet takes the choices sheet's columns
                    self.osm_rows.append(row)
                if self.P.get("p_osm_self", 0) and self.p("p_osm_self"):
                    # a tag named like the list it is in; two lists whose tags name each other
                    self.osm_rows.append({"list_name": ln, "name": ln, "label": "Self"})
                    self.osm_rows.append({"list_name": "building", "name": ln, "label": "Back"})
                if self.p("_", 0.5):
                    self.osm_rows.append({"list_name": "building", "name": "yes", "label": "Yes"})
                    self.osm_rows.append({"list_name": "building", "name": "no", "label": "No"})
        self.names.append(c["name"])
        return {"k": "q", "c": c}

    def external_question(self):
        kind = self.pick(self.P.get("external_kinds", ["from_file", "xml-external", "csv-external"]))
        if kind == "from_file":
            sel = self.pick(["select_one_from_file", "select_multiple_from_file"])
            # one extension per stem: the same stem with two extensions is a documented id clash
            f = self.pick(["cities.csv", "fruits.csv", "geo.geojson", "places.xml", "données.csv"])
            c = {"type": f"{sel} {f}", "name": self.name(), "label": self.text("L")}
            if self.p("_", 0.4):
                # parameter names are case-insensitive, the column names they carry are not
                c["parameters"] = self.pick(["value=code", "label=nm", "value=id2 label=t-l", "Value=CODE, Label=Name_EN", "VALUE=Id2;LABEL=T-l",
                                             "value= Code , label=nm", "label = Nm , value = K"])
            if self.p("_", 0.4):
                c["choice_filter"] = f"kind = ${{{self.pick(self.names)}}}" if self.names else "kind = 'x'"
            self.names.append(c["name"])
            return {"k": "q", "c": c}
        c = {"type": kind, "name": self.name("ext")}
        return {"k": "q", "c": c}

    def nodes(self, depth, inside_repeat=None, budget=None):
        P = self.p
        out = []
        k = self.integer(1, self.P.get("max_children", 4))
        for _ in range(k):
            if self.rows >= self.P.get("max_rows", 25):
                break
            self.rows += 1
            kind = "q"
            if depth < self.P.get("max_depth", 3):
                if P("p_group", 0.15):
                    kind = "g"
                elif P("p_repeat", 0.12):
                    kind = "r"
            if kind == "q":
                if self.visible and P("p_trigger", 0.06):
                    out.append(self.trigger_question(inside_repeat))
                elif depth == 0 and P("p_meta", 0.08):
                    out.append(self.meta_question())
                elif P("p_external", 0.0):
                    out.append(self.external_question())
                elif P("p_osm", 0.0):
                    out.append(self.osm_question())
                else:
                    out.append(self.question(depth, inside_repeat))
                if P("p_blank_row", 0.05):
                    out.append({"k": "x", "c": {}})
                continue
            nm = self.name("s" if self.P.get("neutral_container_names") else ("g" if kind == "g" else "r"))
            c = {"name": nm}
            table_list = None
            if P("_", 0.85):
                self.put_translated(c, "label", lambda: self.text_with_refs("GL"))
            elif kind == "g" and P("_", 0.5):
                c["appearance"] = "field-list"
            if kind == "g" and "appearance" not in c and P("p_field_list", 0.15):
                c["appearance"] = self.pick(["field-list", "field-list custom"])
            if P("p_group_hint", 0.0):
                self.put_translated(c, "hint", lambda: self.text_with_refs("GH"), p_lang=False)
            if P("p_group_media", 0.0) and any(k.split("::")[0] == "label" for k in c):
                mcol = self.pick(["image", "audio", "video"])
                self.put_translated(c, mcol, lambda: f"g{self.integer(1, 99)}.{self.pick(['jpg', 'wav', 'mp4'])}")
                if kind == "g" and P("_", 0.3):
                    # media alone: the group has no label text at all
                    for k in [k for k in c if k.split("::")[0] == "label"]:
                        del c[k]
            if kind == "g" and P("p_table_list", 0.05):
                c["appearance"] = "table-list"
                for k in [k for k in c if k.split("::")[0] in ("image", "audio", "video")]:
                    del c[k]   # a table-list group's label moves to a generated note; media on such a group is not modelled
                if P("p_group_hint", 0.0):
                    for k in [k for k in c if k.split("::")[0] == "label"]:
                        del c[k]
                    c["hint"] = self.text("GH")
                table_list = self.some_list()
                while table_list["name"] in self.search_lists:
                    table_list = self.make_list()
            if kind == "g" and P("p_intent", 0.0):
                # documented: a group can launch an external app
                c["intent"] = "ex:org.app.QUERY(a=" + ("${%s}" % self.pick(self.names) if self.names else "'v'") + ")"
            if P("p_group_logic", 0.2):
                c["relevant"] = self.expr()
            if kind == "r" and P("p_repeat_count", 0.3):
                c["repeat_count"] = (self.pick(["3", "${%s}" % self.pick(self.names), "${%s} + 1" % self.pick(self.names),
                                                "count(${%s})" % self.pick(self.names)]) if self.names else "2")
            if P("p_custom_instance", 0.05):
                c["instance::" + self.pick(["custom", "odk:tag", "tag", "toParseString", "id"])] = self.text("I")
            if P("p_custom_body", 0.0) and kind == "g":
                c["body::" + self.pick(["custom", "toParseString", "jr:q"])] = self.text("Y")
            node = {"k": kind, "c": c, "ch": []}
            (self.repeats if kind == "r" else self.sections).append(nm)
            if kind == "r" and inside_repeat:
                self.repeat_parent[nm] = inside_repeat
            if kind == "r":
                # the repeat itself is a valid ${} target
                pass
            inner_rep = nm if kind == "r" else inside_repeat
            if table_list is not None:
                for i in range(self.integer(1, 3)):
                    self.rows += 1
                    node["ch"].append(self.question(depth + 1, inner_rep, table_list=table_list))
                    if self.P.get("p_table_list_nested", 0) and self.p("p_table_list_nested"):
                        # a plain group inside the table-list group: it neither ends the table-list nor belongs to it
                        self.rows += 2
                        gname = self.name("g")
                        self.sections.append(gname)
                        inner_q = self.question(depth + 2, inner_rep) if self.p("_", 0.5) else self.question(depth + 2, inner_rep, table_list=None)
                        grp = {"k": "g", "c": {"name": gname, "label": self.text("NG")}, "ch": [inner_q]}
                        node["ch"].insert(self.integer(0, len(node["ch"])), grp)
            elif P("p_empty_container", 0.0):
                # a begin/end pair that encloses no question row (perhaps only rows that produce nothing): still one node, one control
                node["ch"] = self.pick([[], [{"k": "x", "c": {"type": "text", "name": self.name("dis"), "label": "off", "disabled": "yes"}}],
                                        [{"k": "x", "c": {"hint": "nothing here yet"}}]])
            else:
                node["ch"] = self.nodes(depth + 1, inner_rep)
                if not any(ch["k"] != "x" for ch in node["ch"]):
                    # an empty group is not a valid form (see C17); keep containers non-empty
                    node["ch"].append(self.question(depth + 1, inner_rep))
            out.append(node)
        return out

    def settings(self):
        P = self.p
        s = {}
        mode = self.P.get("settings", "some")
        if mode == "none":
            return s
        pr = 0.9 if mode == "all" else 0.3
        if P("_", pr):
            s["form_title"] = self.text("title")
        if P("_", pr):
            s["form_id"] = self.pick(["fid", "my_form-1", "f.2"]) + str(self.integer(0, 99))
        if P("_", pr):
            s["version"] = self.pick(["2024010101", "v1.2", "7"])
        if P("_", pr * 0.5):
            s["name"] = self.pick(["root", "mydata", "d-1"])
        if self.langs and P("_", 0.6):
            s["default_language"] = self.pick(self.langs + ["default"])
        if P("_", pr * 0.6) and self.names:
            s["instance_name"] = "concat(${%s}, 'x')" % self.pick(self.names)
        if P("_", pr * 0.5):
            s["submission_url"] = "https://example.com/submit?a=1&b=2"
        if P("_", pr * 0.4):
            s["public_key"] = "MIIBIjANBgkq" + str(self.integer(0, 999))
        if P("_", pr * 0.4):
            s["auto_send"] = self.pick(["true", "false"])
        if P("_", pr * 0.4):
            s["auto_delete"] = self.pick(["true", "false"])
        if P("_", pr * 0.5):
            s["style"] = self.pick(["pages", "theme-grid", "pages theme-grid"])
        if P("_", pr * 0.5):
            s["namespaces"] = self.pick(['esri="http://esri.com/xforms"', 'aa="http://a.example/ns" bb="http://b.example/ns"'])
            if P("_", 0.6):
                pre = "esri" if "esri" in s["namespaces"] else "aa"
                s[f"attribute::{pre}:thing"] = self.text("A")
        if P("_", pr * 0.3):
            s["attribute::plain"] = self.text("A")
        if P("p_attr_override", 0.0):
            s["attribute::" + self.pick(["id", "version"])] = self.pick(["custom-id-7", "9.9.9"])
        if P("_", pr * 0.2):
            s["instance_xmlns"] = "http://example.org/custom-xmlns"
        if P("_", pr * 0.3):
            s["allow_choice_duplicates"] = self.pick(["yes", "no"])
        if P("_", pr * 0.2) and "public_key" not in s:
            s["omit_instanceID"] = self.pick(["yes", "true"])
        if P("p_add_none_option", 0.0):
            s["add_none_option"] = self.pick(["yes", "true"])      # legacy setting: a 'none' constraint on every select_multiple
        return s

    entities_enabled = False


def _all_strings(x):
    if isinstance(x, str):
        yield x
    elif isinstance(x, dict):
        for v in x.values():
            yield from _all_strings(v)
    elif isinstance(x, list):
        for v in x:
            yield from _all_strings(v)


def reuse_names(form, g, k=2):
    """Names only have to be unique among siblings (and sections among sections): give some leaf question the name of an element
    that lives in another section, provided nobody refers to either name with ${...}."""
    def walk(nodes, parent, out):
        for n in nodes:
            out.append((n, parent))
            if n["k"] in ("g", "r"):
                walk(n.get("ch", []), n, out)
        return out

    allnodes = walk(form["nodes"], None, [])
    blob = "\n".join(_all_strings(form))

    # (a question with a trigger is addressed by name when its setvalue is placed, so its name has to be unique)
    triggered = {n["c"].get("name") for n, _ in allnodes if "trigger" in n["c"]}

    # (xml-/csv-external rows name instances, whose ids have to be unique form-wide)
    triggered |= {n["c"].get("name") for n, _ in allnodes if n["c"].get("type", "").split(" ")[0] in ("xml-external", "csv-external")}

    def free(name):
        return name is not None and name not in triggered and ("${%s}" % name) not in blob and ("#%s}" % name) not in blob

    for _ in range(k):
        leaves = [(n, p) for n, p in allnodes if n["k"] == "q" and free(n["c"].get("name")) and not n["c"].get("type", "").endswith("or_other")]
        donors = [(n, p) for n, p in allnodes if n["k"] != "x" and free(n["c"].get("name"))]
        if not leaves or not donors:
            return
        b, bp = g.pick(leaves)
        a, ap = g.pick(donors)
        if a is b or ap is bp:
            continue
        sibs = (bp["ch"] if bp is not None else form["nodes"])
        new = a["c"]["name"]
        if any(sn["c"].get("name", "").lower() == new.lower() for sn in sibs if sn is not b and sn["k"] != "x"):
            continue
        # a section may not share its name with an ancestor-less duplicate section; b is a leaf so that rule is not touched
        b["c"]["name"] = new


def build_form(draw, P, g=None):
    g = g or G(draw, P)
    lang_mode = P.get("langs", "some")
    if lang_mode == "some" and g.p("_", P.get("p_multilang", 0.45)):
        k = g.integer(1, P.get("max_langs", 3))
        g.langs = g.shuffled(LANGS[: P.get("lang_pool", 4)])[:k]
    elif isinstance(lang_mode, list):
        g.langs = list(lang_mode)
    g.entities_enabled = g.p("p_entities", 0.0)
    nodes = g.nodes(0)
    form = {"nodes": nodes}
    # an unused list now and then
    if g.p("p_unused_list", 0.1):
        g.make_list(f"unused{len(g.lists)}")
    if g.osm_rows:
        form["osm"] = g.osm_rows
    if g.lists:
        form["lists"] = g.lists
    s = g.settings()
    if s:
        form["settings"] = s
    if g.entities_enabled:
        e = {"dataset": g.pick(["people", "trees", "ds_1"])}
        ref = (lambda: "${%s}" % g.pick(g.names)) if g.names else (lambda: "'id'")
        # one of the accepted rows of the create/update table
        pat = g.pick(["l", "l", "l", "cl", "i", "iu", "il", "iul", "icu", "icul"])
        if "l" in pat:
            e["label"] = "concat(%s, 'e')" % ref() if g.p("_", 0.7) else "'lab'"
        if "i" in pat:
            e["entity_id"] = ref()
        if "c" in pat:
            e["create_if"] = "%s = 'new'" % ref()
        if "u" in pat:
            e["update_if"] = "%s = 'old'" % ref()
        form["entities"] = [e]
    if g.p("p_extra_sheets", 0.1):
        form["extra_sheets"] = [g.pick(["notes", "_settings", "Sheet3", "lookup_data"])]
    args = {}
    if g.p("p_arg_form_name", 0.1):
        args["form_name"] = g.pick(["argname", "survey1"])
    if g.langs and g.p("p_arg_default_language", 0.15):
        args["default_language"] = g.pick(g.langs)
    form["args"] = args
    form["_langs"] = list(g.langs)
    if P.get("p_reuse_names", 0) and g.p("p_reuse_names"):
        reuse_names(form, g, g.integer(1, 3))
    if P.get("p_prefixed_names", 0) and g.p("p_prefixed_names"):
        prefix_names(form, g)
    return form


def prefix_names(form, g):
    """question names may carry a namespace prefix that the settings sheet declares (ex:q1); only names nobody refers to"""
    blob = "\n".join(_all_strings(form))
    ns = form.get("settings", {}).get("namespaces", "")
    if "ex=" in ns:
        return
    done = False
    for n, _ in model.walk(form["nodes"]):
        nm = n["c"].get("name")
        if (n["k"] == "q" and nm and ":" not in nm and "trigger" not in n["c"] and ("${%s}" % nm) not in blob and ("#%s}" % nm) not in blob
                and n["c"].get("type", "").split(" ")[0] in ("text", "integer", "note", "decimal", "date") and g.p("_", 0.4)):
            n["c"]["name"] = "ex:" + nm
            done = True
    if done:
        form.setdefault("settings", {})["namespaces"] = (ns + " " if ns else "") + 'ex="http://example.com/ex"'


def form_strategy(P):
    @st.composite
    def _s(draw):
        return build_form(draw, P)

    return _s()


BROAD = dict(max_depth=3, max_children=4, max_rows=22, text="adv", p_external=0.04, p_entities=0.12, external_kinds=["from_file", "xml-external", "csv-external"],
             p_last_saved=0.05, p_pulldata=0.05, p_instance_expr=0.05, p_indexed=0.1)
PROFILES = {
    "broad": BROAD,
    "struct": dict(BROAD, max_depth=4, p_group=0.25, p_repeat=0.2, p_logic=0.2, text="plain", p_table_list=0.1, p_meta=0.15),
    "refs": dict(BROAD, max_depth=4, p_group=0.25, p_repeat=0.3, p_logic=0.9, p_ref=0.95, p_text_ref=0.6, text="plain",
                 p_last_saved=0.1, p_pulldata=0.08, p_instance_expr=0.15, p_indexed=0.25, p_default=0.25, p_trigger=0.1, p_choice_filter=0.4),
    "text": dict(BROAD, max_depth=2, max_rows=10, text="adv", p_text_ref=0.4, p_hint=0.6, p_guidance=0.3, p_messages=0.8, p_logic=0.7,
                 p_required=0.5, p_constraint=0.5, settings="all", p_extra_cols=0.6),
    "i18n": dict(BROAD, p_multilang=0.9, max_langs=4, p_hole=0.35, text="uniq", p_hint=0.5, p_guidance=0.3, p_media=0.3, p_messages=0.7,
                 p_logic=0.6, p_choice_media=0.3, p_choice_nolabel=0.0, p_external=0, p_entities=0),
    "logic": dict(BROAD, p_logic=0.95, p_relevant=0.5, p_required=0.5, p_constraint=0.5, p_readonly=0.3, p_messages=0.6, text="plain",
                  p_custom_bind=0.3, p_params=0.7),
    "choices": dict(BROAD, max_lists=5, max_choices=8, p_extra_cols=0.6, p_choice_media=0.3, p_choice_filter=0.4, p_or_other=0.2, p_randomize=0.3,
                    p_external=0.15, p_unused_list=0.3, types=["select_one", "select_multiple", "rank", "text", "integer"], text="plain"),
    "defaults": dict(BROAD, p_default=0.7, p_trigger=0.25, p_repeat=0.3, max_depth=4, text="plain", p_logic=0.2),
    "settings": dict(BROAD, settings="all", max_rows=5, max_depth=1, text="adv"),
}


def respell_language(g, form):
    """one column spells a language with a doubled or non-breaking space: still the same language (header tokens are cleaned)"""
    nodes = form["nodes"]
    sheet_rows = [n["c"] for n, _ in model.walk(nodes)] if g.p("_", 0.6) else [r for lst in form.get("lists", []) for r in lst["rows"]]
    cols = sorted({k.split("::")[0] for r in sheet_rows for k in r if "::" in k and " " in k.split("::", 1)[1]
                   and k.split("::")[0] in ("label", "hint", "constraint_message", "required_message", "guidance_hint", "image", "audio", "video")})
    if not cols:
        return False
    col = g.pick(cols)
    sp = g.pick(["  ", "\xa0", " \xa0", "\t"])
    for r in sheet_rows:
        for k in [k for k in r if k.startswith(col + "::") and " " in k]:
            b, lang = k.split("::", 1)
            val = r.pop(k)
            r[b + "::" + lang.replace(" ", sp, 1)] = val
    dl = form.get("settings", {}).get("default_language")
    if dl and " " in dl and g.p("_", 0.5):
        form["settings"]["default_language"] = dl.replace(" ", sp, 1)      # the setting names the language in the odd spelling too
    return True
