"""C10 -- defaults and triggered calculations are applied exactly once."""

from __future__ import annotations

from hypothesis import strategies as st

from vf import common, gen, model, xform
from vf.ref import expect, refs
from vf.ref import typetable as tt
from vf.runner import Outcome, crash_sig
from vf.xform import JR, ODK, XF, q

ID = "C10"
LEVEL = "exploration"
RULE = ("Hypothesis-generated forms (defaults profile: question type x default drawn from static literals (words, numbers, negative "
        "numbers, ISO dates/times with zone offsets, geopoints, file names, URLs), dynamic expressions (function calls, references, "
        "spaced arithmetic, div/mod, union, predicate) and boundary texts (a-b, 1-1, (x), bare paths, '-' on date/geo types); inside/"
        "outside nested groups and repeats; trigger/target pairs incl. background-geopoint, several targets per trigger, triggers in "
        "repeats); non-trivial = default or trigger on a node inside >=1 repeat, or a boundary default; distinct by SHA-1 of case JSON")
ASSUMPTIONS = ["static/dynamic classes are decided by the documented rule restated in vf/ref/expect.py:is_dynamic_default; boundary "
               "texts are only held to the exactly-once clause"]
BUDGET = {"quick": 12000, "thorough": 400000}

STATIC = {
    "text": ["foo", "bar123", "https://my-site.com/x?y=1", "foo bar", "a.b", "N/A", "q_1", "mod", "div", "no mod", "div or mod", "and", "or", "mod."], "integer": ["5", "-3", "0"],
    "decimal": ["1.5", "-0.25", "-.5", ".75", "-.25"], "date": ["2022-03-14", "1999-12-31"],
    "time": ["01:02:55", "01:02:55.000-07:00", "01:02:55.000+10:00", "23:59:59.5Z"], "dateTime": ["2022-03-14T01:02:55Z", "2022-03-14T01:02:55.000+10:00", "2022-03-14T01:02:55.25-03:30"],
    "geopoint": ["32.7 -117.1 14 5.01", "-1.5 36.8 0 0"], "geotrace": ["1 -2 0 0;3 -4 0 0"], "note": ["n"], "select_one": ["c1", "mod", "div"],
    "select_multiple": ["c1 c2", "c1"], "image": ["a.png"], "barcode": ["b77"], "range": ["3"], "hidden": ["hv"], "acknowledge": ["OK"],
    "calculate": ["plain"],
}
DYNAMIC = ["now()", "today()", "uuid()", "1 + 1", "7 * 4", "3 mod 3", "9 div 3", "concat('a', 'b')", "if(1 = 1, 'a', 'b')",
           "string-length('x')", "once(random())", "/data/x | /data/y", "instance('l1')/root/item[name='c1']/label",
           "today() - 7", "now() - 0.5", "decimal-date-time(today()) - 1", "if(true(), today() - 1, today())",
           # a hyphen in front of what makes the cell an expression
           "1 - today()", "0 - 1 + now()", "today ()", "concat ('a', 'b')", "once (random())", "(0 - 7) + today()", "-1 * 3", "2020-01-01 + 1", "../t0[1]", "/data/x[1]/y"]
DYN_REF = ["${%s}", "${%s} + 1", "concat(${%s}, 'z')", "if(${%s} = '', 'a', ${%s})", "${%s} - 7", "${%s} - ${%s}", "(0 - 7) + ${%s}", "7 - ${%s}",
           "../${%s}" if False else "0 - ${%s}"]
BOUNDARY = ["a-b", "1-1", "f-4", "./f-4", "(x)", "../t0", "7 - 4", "{y}", "a - b", "+5", "+0.5", "1e+3", "2E-2", "+.5"]
TYPES = ["text", "integer", "decimal", "date", "time", "dateTime", "geopoint", "geotrace", "note", "select_one", "select_multiple", "image",
         "barcode", "range", "hidden", "acknowledge", "calculate"]


@st.composite
def _cases(draw):
    prof = dict(gen.PROFILES["defaults"], p_default=0.0, p_trigger=0.2, types=TYPES, p_group=0.2, p_repeat=0.25, p_multilang=0.15,
                p_entities=0, p_external=0, p_meta=0.05)
    g = gen.G(draw, prof)
    form = gen.build_form(draw, prof, g=g)
    names = [n["c"]["name"] for n, _ in model.walk(form["nodes"]) if n["k"] == "q" and "name" in n["c"]]
    for n, _ in model.walk(form["nodes"]):
        if n["k"] == "r" and g.p("_", 0.25):
            # a fixed-size roster: no add/remove buttons (new instances still come from repeat_count and still need their defaults)
            n["c"]["body::jr:noAddRemove"] = g.pick(["true()", "true()", "false()"])
    for n, anc in model.walk(form["nodes"]):
        if n["k"] != "q" or "trigger" in n["c"]:
            continue
        base = n["c"]["type"].split()[0]
        if base not in TYPES or not g.p("_", 0.6):
            continue
        cls = g.pick(["static", "static", "dyn", "dyn", "boundary"])
        if cls == "static":
            n["c"]["default"] = g.pick(STATIC[base])
        elif cls == "dyn":
            if names and g.p("_", 0.5):
                t = g.pick(DYN_REF)
                n["c"]["default"] = t.replace("%s", g.pick(names))
            else:
                n["c"]["default"] = g.pick(DYNAMIC)
        else:
            n["c"]["default"] = g.pick(BOUNDARY)
        if base == "calculate" and "calculation" in n["c"] and g.p("_", 0.5):
            del n["c"]["calculation"]
            if cls != "dyn":
                n["c"]["calculation"] = "1 + 1"
    # names that merely begin with a repeat's name (a string-prefix test on paths would take them to be inside it)
    def add_prefix_siblings(nodes):
        for i, n in enumerate(list(nodes)):
            if n["k"] in ("g", "r"):
                add_prefix_siblings(n["ch"])
            if n["k"] == "r" and g.p("_", 0.3):
                rn = n["c"]["name"]
                sib = {"k": "q", "c": {"type": "text", "name": rn + g.pick(["_info", "s", "2", "_count_x"]), "label": "sib",
                                        "default": g.pick(["now()", "concat('a', 'b')", "1 + 1"])}}
                if g.p("_", 0.4):
                    sib = {"k": "g", "c": {"name": rn + g.pick(["_grp", "x"]), "label": "SG"}, "ch": [
                        {"k": "q", "c": {"type": "text", "name": g.name(), "label": "in", "default": "uuid()"}}]}
                nodes.insert(nodes.index(n) + (1 if g.p("_", 0.6) else 0), sib)
    add_prefix_siblings(form["nodes"])
    if g.p("_", 0.08):
        # a repeat reached through several group levels inside another repeat: still one template copy and one live copy per level
        u = str(g.integer(100, 999))
        inner = {"k": "r", "c": {"name": "ir" + u, "label": "IR"}, "ch": [
            {"k": "q", "c": {"type": "text", "name": "iq" + u, "label": "in", "default": g.pick(["foo", "bar123", "mod"])}}]}
        for d in range(g.integer(1, 3)):
            inner = {"k": "g", "c": {"name": f"ig{d}_{u}", "label": "IG"}, "ch": [inner]}
        form["nodes"].append({"k": "r", "c": {"name": "or" + u, "label": "OR"}, "ch": [inner]})
    if g.p("_", 0.06):
        # trigger sources that cannot host an action: the form must be refused, never converted with the action dropped
        calcs = [n["c"]["name"] for n, _ in model.walk(form["nodes"]) if n["k"] == "q" and n["c"].get("type") == "calculate" and "name" in n["c"]]
        vis = [n["c"]["name"] for n, _ in model.walk(form["nodes"]) if n["k"] == "q" and n["c"].get("type") in ("text", "integer") and "name" in n["c"]]
        kind = g.pick(["geo-on-calculate", "last-saved", "calc-on-calculate"])
        if kind == "geo-on-calculate" and calcs:
            form["nodes"].append({"k": "q", "c": {"type": "background-geopoint", "name": "bgx" + str(g.integer(10, 99)), "trigger": "${%s}" % g.pick(calcs)}})
        elif kind == "calc-on-calculate" and calcs:
            form["nodes"].append({"k": "q", "c": {"type": "calculate", "name": "tcx" + str(g.integer(10, 99)), "calculation": "1 + 1", "trigger": "${%s}" % g.pick(calcs)}})
        elif vis:
            form["nodes"].append({"k": "q", "c": {"type": "calculate", "name": "tlx" + str(g.integer(10, 99)), "calculation": "1 + 1",
                                                  "trigger": "${last-saved#%s}" % g.pick(vis)}})
    # triggered calculations whose whole text is a boolean alias
    for n, _ in model.walk(form["nodes"]):
        if n["k"] == "q" and "trigger" in n["c"] and "calculation" in n["c"] and g.p("_", 0.2):
            n["c"]["calculation"] = g.pick(["yes", "TRUE", "no", "false", "True"])
    return {"form": form}


def strategy(tier):
    return _cases()


def evaluate(case) -> Outcome:
    out = Outcome()
    form = case["form"]
    status, res = common.run_form(form)
    if status == "crash":
        out.label("outcome:crash:" + crash_sig(res))
        return out
    if status == "rejected":
        out.label("outcome:rejected:" + common.err_class(res))
        return out
    out.label("outcome:accepted")
    try:
        v = xform.XFormView(res.xform)
    except xform.IllFormed:
        out.label("unparseable (C01's business)")
        return out
    if v.primary is None or v.body is None:
        return out
    check(out, form, v)
    return out


def _copies(prim, path):
    parts = path.strip("/").split("/")
    cur = [prim]
    for p in parts[1:]:
        cur = [c for x in cur for c in xform.elems(x) if xform.local(c) == p]
    return cur


def _in_template(e):
    while e is not None and isinstance(e.tag, str):
        if e.get(q(JR, "template")) is not None:
            return True
        e = e.getparent()
    return False


def check(out, form, v):
    root = expect.build(form)
    inst = v.live_instance()
    setvalues = [e for e in v.root.iter(q(XF, "setvalue"))]
    bm = v.bind_map()
    controls = {}
    for el in v.body.iter():
        if isinstance(el.tag, str) and el.get("ref") and xform.local(el) in ("input", "select", "select1", "upload", "trigger", "range", "rank"):
            controls.setdefault(el.get("ref"), el)
    nontrivial = False
    for n in root.walk():
        if n.kind != "q" or n.src is None:
            continue
        c = n.cells
        base = tt.parse_type(n.type)[0] if n.type else None
        rep = n.innermost_repeat()
        if "default" in c:
            d = common.survey_clean(c["default"])
            cls = expect.is_dynamic_default(d, base)
            out.label("default:" + {True: "dynamic", False: "static", None: "boundary"}[cls])
            if rep is not None or cls is None:
                nontrivial = True
            copies = _copies(v.primary, n.path)
            live = [e for e in copies if not _in_template(e)]
            first_load = [e for e in setvalues if e.get("ref") == n.path and "odk-instance-first-load" in (e.get("event") or "").split()]
            text = (live[0].text or "") if len(live) == 1 else None
            want_static = ("jr://images/" + d if base in ("image", "photo") and "jr://images/" not in d else d)
            is_static = text not in (None, "") and not first_load
            is_dyn = text == "" and len(first_load) == 1
            out.checked("C10.exactly-once")
            if not (is_static or is_dyn):
                out.fail("C10.exactly-once", f"{'both' if text and first_load else 'neither' if not first_load else 'many-setvalues'}",
                         f"{n.path} default {d!r}: node text {text!r}, {len(first_load)} first-load setvalue(s)")
                continue
            out.checked("C10.class")
            if cls is False and not is_static:
                out.fail("C10.class", "static-as-dynamic", f"{n.path} ({base}) static default {d!r} became a setvalue {first_load[0].get('value')!r}")
                continue
            if cls is True and not is_dyn:
                out.fail("C10.class", "dynamic-as-static", f"{n.path} ({base}) dynamic default {d!r} became literal node text {text!r}")
                continue
            if is_static:
                out.checked("C10.static")
                if text != want_static and " ".join(text.split()) != " ".join(want_static.split()):
                    out.fail("C10.static", "text", f"{n.path}: node text {text!r}, expected {want_static!r}")
                if any((e.text or "") != text for e in copies):
                    out.fail("C10.static", "template", f"{n.path}: template copy differs: {[e.text for e in copies]}")
                # "and nowhere else": one live copy, plus one copy in the template of the outermost enclosing repeat (which holds the
                # templates of the repeats inside it)
                k = sum(1 for a in n.ancestors() if a.kind == "r")
                if len(copies) != (2 if k else 1):
                    out.fail("C10.static", "copies", f"{n.path}: the literal appears in {len(copies)} nodes, expected {2 if k else 1} ({k} enclosing repeat(s))")
                if base != "calculate" and "calculation" not in c:
                    calc = xform.attrs(bm[n.path][0]).get("calculate") if n.path in bm else None
                    if calc is not None:
                        out.fail("C10.static", "calculate-invented", f"{n.path}: bind calculate {calc!r} although the row has none")
            else:
                sv = first_load[0]
                out.checked("C10.dynamic")
                par = sv.getparent()
                ev = (sv.get("event") or "")
                if rep is None:
                    if par.tag != q(XF, "model") or ev != "odk-instance-first-load":
                        out.fail("C10.dynamic", "placement-model", f"{n.path}: setvalue under <{xform.local(par)}> event {ev!r}; expected under model, first-load only")
                else:
                    if par.tag != q(XF, "repeat") or par.get("nodeset") != rep.path or set(ev.split()) != {"odk-instance-first-load", "odk-new-repeat"}:
                        out.fail("C10.dynamic", "placement-repeat", f"{n.path}: setvalue under <{xform.local(par)} {par.get('nodeset')}> event {ev!r}; expected inside repeat {rep.path} with first-load + new-repeat")
                if any((e.text or "") != "" for e in copies):
                    out.fail("C10.dynamic", "node-not-empty", f"{n.path}: {[e.text for e in copies]}")
                if cls is True and refs.match_substituted(d, sv.get("value") or "") is None:
                    out.fail("C10.dynamic", "value", f"{n.path}: setvalue value {sv.get('value')!r} is not {d!r} with references substituted")
        if "trigger" in c:
            if rep is not None:
                nontrivial = True
            out.label("trigger")
            _, rr = refs.split_source(common.survey_clean(c["trigger"]))
            names = expect.by_name(root)
            tag = q(ODK, "setgeopoint") if base == "background-geopoint" else q(XF, "setvalue")
            for ls, name in rr:
                tgt = names.get(name)
                if not tgt or len(tgt) != 1:
                    continue
                host = controls.get(tgt[0].path)
                out.checked("C10.trigger")
                allv = [e for e in v.root.iter(tag) if e.get("ref") == n.path and e.get("event") == "xforms-value-changed"]
                nested = [e for e in allv if e.getparent() is host]
                if host is None or len(nested) != 1 or len(allv) != len(nested) * 1 and len(rr) == 1:
                    out.fail("C10.trigger", "count-or-placement", f"{n.path}: {len(allv)} value-changed actions, {len(nested)} nested in the control of {tgt[0].path}")
                    continue
                calc = c.get("calculation")
                val = nested[0].get("value")
                if calc:
                    # documented: yes/no spellings of a calculation are normalised to true()/false(), with or without a trigger
                    cc = common.survey_clean(calc)
                    cc = "true()" if cc in expect.BIND_TRUE else "false()" if cc in expect.BIND_FALSE else cc
                    toks = None if val is None else refs.match_substituted(cc, val)
                    if toks is None:
                        out.fail("C10.trigger", "value", f"{n.path}: action value {val!r} is not calculation {calc!r} substituted")
                    else:
                        # "with its calculation": the references are read from the calculated node (the action's ref is the context)
                        _, rr2 = refs.split_source(cc)
                        ctx = xform.resolve(inst, n.path)
                        ctx = ctx[0] if len(ctx) == 1 else None
                        for tok, (ls2, name2) in zip(toks, rr2):
                            t2 = names.get(name2)
                            if not t2 or len(t2) != 1 or ctx is None:
                                continue
                            bad = refs.check_token(tok, inst, ctx, t2[0].path, last_saved=ls2, must_relative=refs.must_be_relative(n, t2[0]) or None)
                            if bad:
                                out.fail("C10.trigger", "value-ref:" + bad[0], f"{n.path}: calculation {calc!r}: {bad[1]}")
                elif val is not None and base != "background-geopoint":
                    out.fail("C10.trigger", "value-invented", f"{n.path}: action value {val!r} but no calculation")
            out.checked("C10.no-calculate-with-trigger")
            if n.path in bm and xform.attrs(bm[n.path][0]).get("calculate") is not None:
                out.fail("C10.no-calculate-with-trigger", "", f"{n.path}: bind still has calculate although the row has a trigger")
    out.nontrivial = nontrivial
