"""Reference substitution oracle helpers (C03, C05, C10, C11, C19).

pyxform replaces each ${name} by ' <path> ' (a path token surrounded by single
spaces).  `match_substituted` recovers the path tokens from an output value given
the source cell; `check_token` decides whether a token reaches the target.
"""

from __future__ import annotations

import re

from vf import model, xform

LAST_SAVED_PREFIX = "instance('__last-saved')"


def split_source(source: str):
    """-> (literal pieces [n+1], refs [(last_saved, name)] [n])"""
    lits, refs, pos = [], [], 0
    for m in model.REF_RE.finditer(source):
        lits.append(source[pos:m.start()])
        refs.append((m.group(1) is not None, m.group(2)))
        pos = m.end()
    lits.append(source[pos:])
    return lits, refs


def match_substituted(source: str, actual: str, strip=False):
    """If `actual` is `source` with every ${ref} replaced by ' token ', return the tokens; else None."""
    lits, refs = split_source(source)
    if not refs:
        return [] if (actual.strip() if strip else actual) == (source.strip() if strip else source) else None
    pat = [re.escape(lits[0])]
    for lit in lits[1:]:
        pat.append(r" (\S+) ")
        pat.append(re.escape(lit))
    rx = "".join(pat)
    m = re.fullmatch(rx, actual)
    if not m and strip:
        # call sites that .strip() the substituted text: a ref at either end loses its outer space
        for cand in (" " + actual + " ", " " + actual, actual + " "):
            m = re.fullmatch(rx, cand)
            if m:
                break
    if not m:
        return None
    return list(m.groups())


def in_indexed_repeat(source: str, ref_index: int) -> bool:
    """is the ref_index-th ${...} of source inside an indexed-repeat( ... ) call?"""
    ms = list(model.REF_RE.finditer(source))
    pos = ms[ref_index].start()
    for m in re.finditer(r"indexed-repeat\s*\(", source):
        depth, i = 1, m.end()
        while i < len(source) and depth:
            depth += source[i] == "("
            depth -= source[i] == ")"
            i += 1
        if m.end() <= pos < i:
            return True
    return False


def indexed_repeat_arg(source: str, ref_index: int):
    """index of the argument (of the innermost indexed-repeat call around it) that holds the ref_index-th ${...}, else None.
    Parentheses/brackets are balanced and string literals skipped."""
    ms = list(model.REF_RE.finditer(source))
    pos = ms[ref_index].start()
    best = None
    for m in re.finditer(r"indexed-repeat\s*\(", source):
        depth, i, arg, quote, found = 1, m.end(), 0, None, None
        while i < len(source) and depth:
            ch = source[i]
            if quote:
                quote = None if ch == quote else quote
            elif ch in "'\"":
                quote = ch
            elif ch in "([":
                depth += 1
            elif ch in ")]":
                depth -= 1
            elif ch == "," and depth == 1:
                arg += 1
            if i == pos:
                found = arg
            i += 1
        if found is not None and m.end() <= pos < i and (best is None or m.start() > best[0]):
            best = (m.start(), found)
    return best[1] if best else None


def in_instance_predicate(source: str, ref_index: int) -> bool:
    """is the ref inside [ ... ] of an expression that contains instance( ?"""
    if not re.search(r"instance\s*\(", source):      # XPath allows white space between a function name and its parenthesis
        return False
    ms = list(model.REF_RE.finditer(source))
    pos = ms[ref_index].start()
    depth, quote = 0, None
    for ch in source[:pos]:
        if quote:
            quote = None if ch == quote else quote
        elif ch in "'\"":
            quote = ch
        else:
            depth += ch == "["
            depth -= ch == "]"
    return depth > 0


def check_token(token, inst, context_el, target_path, *, last_saved=False, must_relative=None, need_current=False, stay_within=None):
    """-> None if fine, else (tag, message).
    inst: template-free actual instance root; context_el: element of inst the cell belongs to (or None)."""
    t = token
    if last_saved:
        if not t.startswith(LAST_SAVED_PREFIX):
            return "last-saved-prefix", f"{token!r} lacks {LAST_SAVED_PREFIX}"
        t = t[len(LAST_SAVED_PREFIX):]
        if t != target_path:
            return "last-saved-path", f"{token!r}: expected absolute {target_path}"
        return None
    if t.startswith(LAST_SAVED_PREFIX):
        return "unexpected-last-saved", f"{token!r}"
    if t.startswith("/"):
        if t != target_path:
            return "wrong-absolute", f"{token!r} != {target_path}"
        if must_relative:
            return "absolute-where-relative-required", f"{token!r} should be relative (target shares the referrer's repeat)"
        return None
    # relative
    if context_el is None:
        return "relative-without-context", f"{token!r}"
    hits = xform.resolve(inst, t, context_el)
    paths = sorted({xform.node_path(h) for h in hits})
    if paths != [target_path]:
        return "wrong-relative", f"{token!r} from {xform.node_path(context_el)} reaches {paths}, expected {target_path}"
    if must_relative and stay_within is not None:
        # "relative" means staying inside the current instance of the shared repeat: climbing above it and coming back down
        # through the repeat's name reaches the node in every instance
        rel = t[len("current()/"):] if t.startswith("current()/") else t
        ups = 0
        for step in rel.split("/"):
            if step == "..":
                ups += 1
            elif step != ".":
                break
        if ups > stay_within:
            return "leaves-repeat-instance", f"{token!r} from {xform.node_path(context_el)} climbs {ups} levels, above the shared repeat ({stay_within} levels up)"
    if need_current and not t.startswith("current()/"):
        return "missing-current", f"{token!r} inside a secondary-instance predicate must start with current()/"
    return None


def levels_to_shared_repeat(referrer, target):
    """how many '..' steps lead from the referrer to the target's innermost repeat when that repeat encloses the referrer, else None"""
    rep = target.innermost_repeat()
    if rep is None or not any(a is rep for a in referrer.ancestors()):
        return None
    return len(referrer.path.split("/")) - len(rep.path.split("/"))


def must_be_relative(referrer, target) -> bool:
    """statement C03(b): relative whenever the target's innermost enclosing repeat also encloses the referrer"""
    rep = target.innermost_repeat()
    if rep is None:
        return False
    return any(a is rep for a in referrer.ancestors())
