"""C12 -- container format and delivery channel do not matter."""

from __future__ import annotations

import copy
import io
import os
import pathlib
import random
import re
import shutil
import tempfile

from hypothesis import strategies as st

from vf import biff, common, gen, model, render, xform
from vf.runner import Outcome, crash_sig

ID = "C12"
LEVEL = "exploration"
RULE = ("Hypothesis-generated broad forms (cells restricted to what every container can carry: trimmed, no tab/newline/NBSP) with "
        "number- and boolean-looking cells planted in labels, hints, messages, defaults, choice names/labels, version and required; "
        "each case is rendered as dict (reference), Markdown, CSV, XLSX (openpyxl) and XLS (own BIFF8/OLE2 writer) and delivered through "
        "a generated choice of {path str, PathLike, bytes, BytesIO, open binary file, text str} x {explicit, implicit file_type} "
        "(xlsm = the xlsx bytes under the other suffix/file_type); spreadsheet renderings carry generated noise: typed int / integral "
        "float / decimal / boolean cells, surrounding spaces-tabs-newlines-NBSP, inner NBSP, header padding, trailing empty rows and "
        "columns (None, '', blanks), runs of 1..60 blank rows and 1..20 header-less blank columns inside the data (59/60 and 19/20 "
        "weighted). Oracle: (xform, warnings, itemsets) byte-equal to the dict rendering of the canonical text (with {} rows where "
        "blank rows were inserted; with fallback_form_name=stem for path deliveries). Non-trivial = accepted form with >=2 sheets, "
        ">=1 typed cell or noise element, and >=3 distinct (container, delivery) pairs compared; distinct by SHA-1 of the case JSON")
ASSUMPTIONS = ["the reference channel is convert(dict) on canonical text; it is itself checked against the models of C04-C11",
               ".xls files come from our own minimal BIFF8 writer (LABEL/NUMBER/BOOLERR/RK/MULRK/LABELSST records), not from Excel",
               "Markdown and CSV cannot carry blank rows or typed cells: they are compared on the noise-free workbook",
               "Excel date cells, formulas and rich text are outside the statement and not generated"]
BUDGET = {"quick": 2800, "thorough": 60000}
REQUIRED_LABELS = ["lone-sheet", "container:md", "container:csv", "container:xlsx", "container:xls", "container:xlsm",
                   "delivery:path", "delivery:pathlike", "delivery:bytes", "delivery:bytesio", "delivery:bytesio-end", "delivery:file", "delivery:text",
                   "file_type:explicit", "file_type:implicit",
                   "noise:typed-int", "noise:typed-intfloat", "noise:typed-float", "noise:typed-bool", "noise:pad", "noise:nbsp",
                   "noise:trailing-rows", "noise:trailing-cols", "noise:blank-rows", "noise:blank-cols", "noise:blank-rows-60",
                   "noise:blank-cols-20", "noise:header-pad", "noise:typed-header", "stem:other", "has-itemsets", "has-warnings"]

NBSP = "\xa0"
INT_RE = re.compile(r"^-?(0|[1-9][0-9]{0,14})$")
NUMTEXT = ["0.00001", "0.000025", "-0.00007", "5", "0", "-3", "12", "2024", "1.5", "-0.25", "0.125", "3.75", "100000", "TRUE", "FALSE", "7", "42", "0.5", "1000000.5",
           "123456789012345"]
NOISES = ["typed", "pad", "nbsp", "trailing-rows", "trailing-cols", "blank-rows", "blank-cols", "header-pad", "bom", "remark-row", "md-separator"]


# ------------------------------------------------------------------ generator


def _sanitize(x):
    """cells every container can carry: trimmed, NBSP-free, non-empty"""
    if isinstance(x, str):
        s = x.replace(NBSP, " ").strip()
        return s if s else "t"
    if isinstance(x, list):
        return [_sanitize(v) for v in x]
    if isinstance(x, dict):
        return {k: _sanitize(v) for k, v in x.items()}
    return x


@st.composite
def _cases(draw):
    prof = dict(gen.PROFILES["broad"], text_ctl=False, p_external=0.08, p_extra_cols=0.4, settings="some", p_blank_row=0.0,
                p_extra_sheets=0.15, p_choice_nolabel=0.03, p_default=0.25, p_required=0.4, p_repeat_count=0.4, p_messages=0.5)
    g = gen.G(draw, prof)
    form = gen.build_form(draw, prof, g=g)
    form.pop("_langs", None)
    langs = list(g.langs)
    # select_one_external + external_choices sheet (itemsets) now and then
    if g.p("_", 0.2):
        ext = []
        for ln in ("ecities", "etowns")[: g.integer(1, 2)]:
            for i in range(g.integer(1, 4)):
                row = {"list_name": ln, "name": f"e{i}"}
                if g.p("_", 0.8):
                    row["label"] = g.pick(NUMTEXT) if g.p("_", 0.3) else g.text("el")
                if g.p("_", 0.6):
                    row["state"] = g.pick(["tx", "wa", "5", "1.5"])
                if g.p("_", 0.3):
                    row["zone"] = g.pick(["z1", "TRUE", "7"])
                ext.append(row)
        form["ext"] = ext
        form["nodes"].append({"k": "q", "c": {"type": "text", "name": "st8", "label": "state"}})
        form["nodes"].append({"k": "q", "c": {"type": "select_one_external ecities", "name": "extq", "label": "city",
                                              "choice_filter": "state=${st8}"}})
    # plant number / boolean looking text
    for n, _ in model.walk(form["nodes"]):
        c = n["c"]
        for k in list(c):
            base = k.split("::")[0]
            if base in ("label", "hint", "constraint_message", "required_message", "guidance_hint") and "${" not in c[k] and g.p("_", 0.25):
                c[k] = g.pick(NUMTEXT)
            elif base in ("label", "hint", "constraint_message") and "${" not in c[k] and g.p("_", 0.06):
                # Unicode line/paragraph separators and NEL (text pasted from a word processor): characters of the cell, not row ends
                c[k] = "a" + g.pick(["\u2028", "\u2029", "\x85"]) + "b " + c[k]
            if base == "required" and c[k] in ("yes", "TRUE", "True", "true") and g.p("_", 0.6):
                c[k] = "TRUE"
            if base == "required" and c[k] in ("no", "false") and g.p("_", 0.6):
                c[k] = "FALSE"
    for lst in form.get("lists", []):
        numeric_names = g.p("_", 0.3)
        for i, r in enumerate(lst["rows"]):
            if numeric_names:
                r["name"] = str(i + 1)
            for k in list(r):
                if k != "name" and g.p("_", 0.25):
                    r[k] = g.pick(NUMTEXT) if not k.split("::")[0] in ("image", "audio", "video") else r[k]
    if "settings" in form and g.p("_", 0.5):
        form["settings"]["version"] = g.pick(["2024010101", "7", "3.5"])
    if "settings" in form and g.p("_", 0.12):
        # cells that consist of dashes only: data, not a Markdown separator row
        form["settings"]["form_title"] = g.pick(["-", "--", "---", "- -"])     # ('---' alone: Markdown cannot carry that row)
    if g.p("_", 0.2):
        # columns whose header is a number: in a spreadsheet such a header cell may be typed
        for n, _ in model.walk(form["nodes"]):
            if n["k"] == "q" and g.p("_", 0.4):
                n["c"]["2024"] = "note to self"
        for lst in form.get("lists", []):
            for r in lst["rows"]:
                if g.p("_", 0.5):
                    r["7"] = "x"
    if g.p("_", 0.2):
        # a mis-named optional sheet: every container must hand its name to the spelling check
        near = []
        if "settings" not in form:
            near += ["setings", "Settings2", "setting"]
        if "entities" not in form:
            near += ["entites", "entitie"]
        if near:
            form["extra_sheets"] = list(form.get("extra_sheets", [])) + [g.pick(near)]
    if g.p("_", 0.06):
        # a workbook with one sheet of any name: that sheet is the survey sheet (documented), in every container
        keep = [n for n in form["nodes"] if n["k"] == "q" and n["c"].get("type", "").split(" ")[0] in ("text", "integer", "decimal", "note", "date")
                and not any("${" in v for v in n["c"].values() if isinstance(v, str))]
        if keep:
            form = {"nodes": keep, "args": form.get("args", {}), "sheet_names": {"survey": g.pick(["Sheet1", "Feuil1", "my form", "Survey 2"])}}
    form = _sanitize(form)
    form["_langs"] = langs
    kinds = [k for k in NOISES if g.p("_", 0.45)] or [g.pick(NOISES)]
    return {"form": form, "spec": {"seed": g.integer(0, 65535), "noise": kinds}}


def strategy(tier):
    return _cases()


# ---------------------------------------------------------------------- noise


def rnd(seed, *site):
    return random.Random(f"{seed}:" + ":".join(map(str, site)))


def typed_value(r, text):
    """a typed cell value whose canonical text is `text`, or None when the text has no typed spelling; plus the kind"""
    if text in ("TRUE", "FALSE"):
        return text == "TRUE", "typed-bool"
    if INT_RE.match(text):
        if r.random() < 0.5:
            return int(text), "typed-int"
        return float(int(text)), "typed-intfloat"
    try:
        f = float(text)
    except ValueError:
        return None, None
    import decimal
    # the shortest decimal spelling (never exponent notation: a text format would not spell 0.00001 as 1e-05)
    if "e" not in text and "n" not in text and "." in text and format(decimal.Decimal(repr(f)), "f") == text:
        return f, "typed-float"
    return None, None


PADS = [" ", "  ", "\t", "\n", NBSP, " " + NBSP, "\r\n"]


def make_grids(sheets, spec, out_labels):
    """[(name, head, rows)] -> (noise-free ref sheets, ref sheets with blank rows, [(name, grid)] for the spreadsheet writers)"""
    seed, kinds = spec["seed"], set(spec["noise"])
    ref_rows = []
    grids = []
    colmap = {}
    text_sheets = []
    remark = set()
    for name, head, rows in sheets:
        r0 = rnd(seed, "sheet", name)
        rows = [dict(r) for r in rows]
        # blank rows inside the data (positions 0..len-1, never after the last row: that would be 'trailing')
        with_blank = []
        if "blank-rows" in kinds and rows and name in ("survey", "choices", "external_choices") and r0.random() < 0.7:
            pos = r0.randrange(len(rows))
            k = r0.choice([1, 2, 7, 30, 59, 60, 60])
            for i, r in enumerate(rows):
                if i == pos:
                    with_blank.extend({} for _ in range(k))
                    out_labels.add("noise:blank-rows")
                    if k == 60:
                        out_labels.add("noise:blank-rows-60")
                with_blank.append(r)
        else:
            with_blank = rows
        ref_rows.append((name, head, with_blank))
        text_rows = [dict(r) for r in with_blank]
        text_sheets.append((name, head, text_rows))
        # columns: optional header-less blank columns inside the header
        cols = list(head)
        if "blank-cols" in kinds and len(cols) > 1 and r0.random() < 0.7:
            pos = r0.randrange(1, len(cols))
            k = r0.choice([1, 3, 19, 20, 20])
            cols[pos:pos] = [None] * k
            out_labels.add("noise:blank-cols")
            if k == 20:
                out_labels.add("noise:blank-cols-20")
        colmap[name] = list(cols)
        hrow = []
        for h in cols:
            if h is None:
                hrow.append(r0.choice([None, None, "", " "]))
            elif "typed" in kinds and typed_value(r0, h)[1] in ("typed-int", "typed-intfloat", "typed-float"):
                hrow.append(typed_value(r0, h)[0])
                out_labels.add("noise:typed-header")
            elif "header-pad" in kinds and r0.random() < 0.4:
                hrow.append(r0.choice([" ", "  ", ""]) + h + r0.choice([" ", "   ", "\t"]))
                out_labels.add("noise:header-pad")
            else:
                hrow.append(h)
        g = [hrow]
        for i, r in enumerate(with_blank):
            line = []
            for h in cols:
                v = r.get(h) if h is not None else None
                if v is None:
                    line.append(r0.choice([None, None, None, "", " "]) if not r or r0.random() < 0.1 else None)
                    continue
                rr = rnd(seed, "cell", name, i, h)
                if "typed" in kinds and h not in ("type",) and rr.random() < 0.7:
                    tv, kind = typed_value(rr, v)
                    if kind:
                        line.append(tv)
                        out_labels.add("noise:" + kind)
                        continue
                if "nbsp" in kinds and " " in v and rr.random() < 0.4:
                    j = [m.start() for m in re.finditer(" ", v)]
                    p = rr.choice(j)
                    v = v[:p] + NBSP + v[p + 1:]
                    out_labels.add("noise:nbsp")
                    text_rows[i][h] = v       # the text containers carry the same non-breaking space
                if "pad" in kinds and rr.random() < 0.4:
                    v = rr.choice(PADS + [""]) + v + rr.choice(PADS)
                    out_labels.add("noise:pad")
                line.append(v)
            g.append(line)
        if "trailing-cols" in kinds and r0.random() < 0.7:
            k = r0.choice([1, 5, 25, 40])
            for li, line in enumerate(g):
                line.extend(r0.choice([None, None, "", "  "]) if li == 0 or r0.random() < 0.3 else None for _ in range(k))
            out_labels.add("noise:trailing-cols")
        if "trailing-rows" in kinds and r0.random() < 0.7:
            k = r0.choice([1, 10, 61, 75])
            w = len(g[0])
            for _ in range(k):
                g.append([r0.choice([None, None, "", "  ", NBSP]) for _ in range(r0.randrange(0, w + 1))])
            out_labels.add("noise:trailing-rows")
        if "remark-row" in kinds and name in ("survey", "choices", "external_choices") and r0.random() < 0.7:
            # a remark typed to the right of the table, below the last data row: outside every headed column
            g.append([None] * (len(g[0]) + r0.randrange(1, 3)) + ["remark for the reviewer"])
            out_labels.add("noise:remark-row")
            remark.add(name)
        grids.append((name, g))
    make_grids.colmap = colmap
    make_grids.remark = remark
    make_grids.text_sheets = text_sheets
    return ref_rows, grids


def dict_workbook(sheets, extra=None):
    """[(name, head, rows)] -> the documented dict input (rows list their cells in header order)"""
    wb = {}
    names = []
    lone = len(sheets) == 1 and sheets[0][0].lower() not in ("survey", "choices", "settings", "external_choices", "entities", "osm")
    for name, head, rows in sheets:
        names.append(name)
        if lone:
            name = "survey"     # the only sheet of a workbook is its survey sheet, whatever it is called
        if name not in ("survey", "choices", "settings", "external_choices", "entities", "osm"):
            continue
        wb[name] = [{h: r[h] for h in head if h in r} for r in rows]
        wb[name + "_header"] = [{h: None for h in head}]
    wb["sheet_names"] = names
    if extra:
        wb.update(extra)
    return wb


def grids_to_xlsx(grids, hidden=()) -> bytes:
    from openpyxl import Workbook

    book = Workbook()
    book.remove(book.active)
    for name, g in grids:
        ws = book.create_sheet(title=name[:31])
        if name in hidden:
            ws.sheet_state = "hidden"      # authors hide the advanced sheets once they are set up; a hidden sheet is still a sheet
        for ri, line in enumerate(g, start=1):
            render.xlsx_row(ws, ri, line)
    buf = io.BytesIO()
    book.save(buf)
    return buf.getvalue()


def grids_to_xls(grids, variant=0) -> bytes:
    return biff.ole2(biff.workbook([(n[:31], g) for n, g in grids], variant=variant))


# ----------------------------------------------------------------- evaluation

EXT = {"md": ".md", "csv": ".csv", "xlsx": ".xlsx", "xlsm": ".xlsm", "xls": ".xls"}
DELIVERIES = ["path", "pathlike", "bytes", "bytesio", "bytesio-end", "file", "tempfile", "text"]
STEMS = ["data", "data", "my form", "form.v2", "Ünï-côdé_1", "x"]


def triple(res):
    return (res.xform, list(res.warnings), res.itemsets)


def deliver(container, payload, how, explicit, stem, tmp, args):
    """run convert() on one rendering; returns (status, result, used_stem or None)"""
    from pyxform.xls2xform import convert

    kw = dict(args)
    if explicit:
        kw["file_type"] = EXT[container]
    fh = None
    try:
        if how in ("path", "pathlike", "file"):
            # an explicit file_type lets the file carry a misleading or missing suffix
            suffix = EXT[container] if not explicit or stem == "data" else ""
            p = os.path.join(tmp, stem + suffix)
            with open(p, "wb") as f:
                f.write(payload)
            if how == "path":
                arg, used = p, stem if suffix else pathlib.Path(p).stem
            elif how == "pathlike":
                arg, used = pathlib.Path(p), stem if suffix else pathlib.Path(p).stem
            else:
                fh = open(p, "rb")  # noqa: SIM115
                arg, used = fh, None
        elif how == "bytes":
            arg, used = payload, None
        elif how == "bytesio":
            arg, used = io.BytesIO(payload), None
        elif how == "tempfile":
            # an object that wraps a binary file without being an io.IOBase itself
            fh = tempfile.NamedTemporaryFile(dir=tmp)  # noqa: SIM115
            fh.write(payload)
            fh.seek(0)
            arg, used = fh, None
        elif how == "bytesio-end":
            # a buffer as a writer leaves it (openpyxl's save(buf), buf.write(...)): positioned at its end
            arg, used = io.BytesIO(), None
            arg.write(payload)
        else:
            arg, used = payload.decode("utf-8"), None
        try:
            return "ok", convert(arg, **kw), used
        except common.PyXFormError as e:
            return "rejected", e, used
        except Exception as e:  # noqa: BLE001
            return "crash", e, used
    finally:
        if fh is not None:
            fh.close()


def _compare(out, status, res, sr, rr_, where, tagbase, base, used, form):
    out.checked("C12.same-outcome")
    if status == "crash":
        out.fail("C12.same-outcome", f"crash:{crash_sig(res)}|{tagbase}", f"[{where}] {type(res).__name__}: {res}")
        return
    if status != sr:
        out.fail("C12.same-outcome", f"{sr}->{status}|{tagbase}",
                 f"[{where}] dict: {sr} {rr_ if sr != 'ok' else ''} / container: {status} {res if status != 'ok' else ''}")
        return
    if status == "rejected":
        out.checked("C12.same-error")
        if str(res) != str(rr_):
            out.fail("C12.same-error", tagbase, f"[{where}] dict: {rr_} / container: {res}")
        return
    a, b = triple(rr_), triple(res)
    for field, x, y in zip(("xform", "warnings", "itemsets"), a, b):
        out.checked("C12." + field)
        if x != y:
            detail = ""
            if field == "xform":
                try:
                    detail = xform.canon_diff(xform.canon(xform.parse(x)), xform.canon(xform.parse(y))) or "bytes differ, trees equal"
                except xform.IllFormed:
                    detail = "unparseable"
                kind = "text" if ": text " in detail else "attr" if ": attr " in detail else "structure"
            else:
                detail = f"{x!r} vs {y!r}"
                kind = ""
            out.fail("C12." + field, f"{kind}|{tagbase}", f"[{where}] {detail}"[:600])
    # independent of the dict channel: a path delivery supplies the default form id from its stem
    if used is not None and "form_id" not in form.get("settings", {}) and "id_string" not in form.get("settings", {}):
        out.checked("C12.stem-id")
        try:
            v = xform.XFormView(res.xform)
            got = v.primary.get("id") if v.primary is not None else None
        except xform.IllFormed:
            got = used
        if got != used:
            out.fail("C12.stem-id", base, f"[{where}] stem {used!r} but primary instance id {got!r}")


def evaluate(case) -> Outcome:
    out = _evaluate(case)
    kinds = case["spec"]["noise"]
    if out.violations and len(kinds) > 1:
        # attribute the failure to a single noise kind when one alone reproduces it
        for k in kinds:
            o2 = _evaluate({"form": case["form"], "spec": dict(case["spec"], noise=[k])})
            if o2.violations:
                out.violations = o2.violations
                break
    return out


def _evaluate(case) -> Outcome:
    out = Outcome()
    form = case["form"]
    spec = case["spec"]
    seed = spec["seed"]
    args = {k: v for k, v in form.get("args", {}).items() if k in ("form_name", "default_language")}
    sheets = render.sheets_of(form)
    labels = set()
    ref_sheets, grids = make_grids(sheets, spec, labels)
    blame = "+".join(sorted(spec["noise"])) if len(spec["noise"]) <= 1 else "several"
    if "bom" in spec["noise"]:
        labels.add("noise:bom")      # Excel's "CSV UTF-8" and some editors start a text file with a byte order mark
    blank_rows = "noise:blank-rows" in labels
    blank_cols = "noise:blank-cols" in labels
    colmap = make_grids.colmap
    text_sheets = make_grids.text_sheets      # the sheets with blank rows and in-text non-breaking spaces, for the text containers
    nbsp = "noise:nbsp" in labels

    def reference(sh, stem):
        extra = {"fallback_form_name": stem} if stem is not None else None
        return common.run_workbook(dict_workbook(sh, extra), **args)

    refs = {}

    def ref_for(noisy, stem):
        key = (noisy, stem)
        if key not in refs:
            refs[key] = reference(ref_sheets if noisy else sheets, stem)
        return refs[key]

    s0, r0 = ref_for(False, None)
    if s0 == "crash":
        out.label("reference:crash:" + crash_sig(r0))
        return out
    out.label("reference:" + s0)
    if len(sheets) == 1 and sheets[0][0].lower() != "survey":
        out.label("lone-sheet")
    if s0 == "ok" and r0.itemsets:
        out.label("has-itemsets")
    if s0 == "ok" and r0.warnings:
        out.label("has-warnings")
    r = rnd(seed, "plan")
    plan = []
    md_ok = render.md_ok(form)
    if r.random() < 0.35:
        plan.append(("dict", "noheader", False, "data"))
    for container in ("md", "csv", "xlsx", "xls"):
        if container == "md" and not md_ok:
            out.label("md-cannot-carry")
            continue
        cont = container
        if container == "xlsx" and r.random() < 0.35:
            cont = "xlsm"
        hows = [h for h in DELIVERIES if h != "text" or cont in ("md", "csv")]
        n = 2 if r.random() < 0.4 else 1
        for how in r.sample(hows, n):
            plan.append((cont, how, r.random() < 0.5, r.choice(STEMS)))
    if spec.get("plan"):
        plan = [tuple(x) for x in spec["plan"]]
    tmp = tempfile.mkdtemp(prefix="vfc12_")
    pairs = set()
    try:
        payloads = {}
        for cont, how, explicit, stem in plan:
            base = "xlsx" if cont == "xlsm" else cont
            if cont == "dict":
                # the documented dict input without *_header keys: headers are the ordered union of the row keys
                wb_nh = {k: v for k, v in dict_workbook(sheets).items() if not k.endswith("_header")}
                status, res = common.run_workbook(wb_nh, **args)
                used = None
                sr, rr_ = ref_for(False, None)
                noisy = False
                out.label("container:dict-noheader")
                where, tagbase = "dict|noheader", "dict|-"
                pairs.add((cont, how))
                _compare(out, status, res, sr, rr_, where, tagbase, base, used, form)
                continue
            if base not in payloads:
                try:
                    # the text containers carry the blank rows too (rows without any cell), not the other kinds of noise
                    if base in ("md", "csv"):
                        cols_ = dict(colmap) if (blank_cols or (make_grids.remark and base == "csv")) else None
                        tsheets = text_sheets
                        if make_grids.remark and base == "csv":
                            # the same remark cell, one column to the right of the last header
                            # (not in Markdown: a value under a header-less column is refused there, and a pinned test says so)
                            tsheets = []
                            for name, head, rows in text_sheets:
                                if name in make_grids.remark:
                                    cc = list((cols_ or {}).get(name, head)) + [None]
                                    cols_[name] = cc
                                    rows = [*rows, {"__remark": "remark for the reviewer"}]
                                tsheets.append((name, head, rows))
                        txt = (render.md_of_sheets if base == "md" else render.csv_of_sheets)(tsheets, cols=cols_, remark_key="__remark")
                        if base == "md" and "md-separator" in spec["noise"]:
                            from vf.props.c11 import with_separators
                            txt = with_separators(txt, ["spaced", "plain", "aligned", "left"][seed % 4])
                            labels.add("noise:md-separator")
                        payloads[base] = (b"\xef\xbb\xbf" if "noise:bom" in labels else b"") + txt.encode("utf-8")
                    elif base == "xlsx":
                        payloads[base] = grids_to_xlsx(grids)
                    else:
                        payloads[base] = grids_to_xls(grids, variant=seed % 3)
                except Exception as e:  # noqa: BLE001  (our writer / openpyxl refuses a cell: not a pyxform matter)
                    out.label(f"writer-cannot-carry:{base}:{type(e).__name__}")
                    payloads[base] = None
            payload = payloads[base]
            if payload is None:
                continue
            status, res, used = deliver(cont, payload, how, explicit, stem, tmp, args)
            noisy = base in ("xlsx", "xls")
            sr, rr_ = ref_for(noisy or blank_rows, used)
            out.label(f"container:{cont}", f"delivery:{how}", "file_type:explicit" if explicit else "file_type:implicit")
            if used is not None and used != "data":
                out.label("stem:other")
            pairs.add((cont, how))
            where = f"{cont}|{how}|{'explicit' if explicit else 'implicit'}"
            tagbase = f"{base}|{blame if noisy else '+'.join(x for x, on in (('blank-rows', blank_rows), ('blank-cols', blank_cols), ('nbsp', nbsp), ('bom', "noise:bom" in labels), ('md-separator', base == "md" and "md-separator" in spec["noise"]), ('remark-row', bool(make_grids.remark) and base == "csv")) if on) or '-'}"
            _compare(out, status, res, sr, rr_, where, tagbase, base, used, form)
    finally:
        shutil.rmtree(tmp, ignore_errors=True)
    for lab in labels:
        out.label(lab)
    nsheets = sum(1 for n, _, _ in sheets if n in ("survey", "choices", "settings", "external_choices", "entities"))
    out.nontrivial = s0 == "ok" and nsheets >= 2 and bool(labels) and len(pairs) >= 3
    return out
