"""Renderers: abstract sheets -> md / csv / xlsx / xls bytes (our own writers; the readers under test are pyxform's)."""

from __future__ import annotations

import csv
import io

from vf import biff, model


def sheets_of(form):
    """ordered [(sheet name as written, header list, row dict list)] incl. data-less extra sheets"""
    out = []
    disp = form.get("sheet_names", {})
    for name, (head, rows) in model.to_sheets(form).items():
        out.append((disp.get(name, name), head, rows))
    for extra in form.get("extra_sheets", []):
        out.append((extra, ["note"], [{"note": "unrelated"}]))
    return out


def grid(head, rows):
    """header + rows -> list of lists (None for empty cells)"""
    g = [list(head)]
    for r in rows:
        g.append([r.get(h) for h in head])
    return g


def md_cell(v):
    if v is None:
        return ""
    return str(v).replace("|", "\\|")


def md_ok(form) -> bool:
    """can Markdown carry this workbook? (no newlines/tabs-only distinctions, no blank rows, no cell ending in a backslash)"""
    import re as _re
    for _, head, rows in sheets_of(form):
        for r in rows:
            if not r:
                return False
            if r and all(isinstance(v, str) and _re.fullmatch(r":?-{3,}:?", v.strip()) for v in r.values()):
                return False    # a row whose cells are all '---' *is* a Markdown separator row
            for v in r.values():
                if isinstance(v, str) and ("\n" in v or "\r" in v or v.endswith("\\") or "\\|" in v or v != v.strip() or not v.strip()):
                    return False
        if any("\n" in h or h != h.strip() for h in head):
            return False
    return True


def to_md(form) -> str:
    return md_of_sheets(sheets_of(form))


def md_of_sheets(sheets, cols=None, remark_key=None) -> str:
    """cols: optional {sheet name: column list with None for header-less empty columns};
    remark_key: a row that has this key puts its value into the last (header-less) column"""
    lines = []
    for name, head, rows in sheets:
        head = (cols or {}).get(name, head)
        lines.append(f"| {name} |")
        lines.append("| | " + " | ".join(md_cell(h) for h in head) + " |")
        for r in rows:
            cells = [md_cell(r.get(h) if h is not None else None) for h in head]
            if remark_key and remark_key in r:
                cells[-1] = md_cell(r[remark_key])
            lines.append("| | " + " | ".join(cells) + " |")
    return "\n".join(lines) + "\n"


def to_csv(form) -> str:
    return csv_of_sheets(sheets_of(form))


def csv_field(v) -> str:
    """minimal quoting as a spreadsheet program exports it (Python's writer leaves a lone CR unquoted when the line end is LF)"""
    v = "" if v is None else str(v)
    if any(ch in v for ch in ',"\r\n'):
        return '"' + v.replace('"', '""') + '"'
    return v


def csv_of_sheets(sheets, cols=None, remark_key=None) -> str:
    lines = []
    for name, head, rows in sheets:
        head = (cols or {}).get(name, head)
        lines.append([name])
        lines.append(["", *["" if h is None else h for h in head]])
        for r in rows:
            cells = [("" if h is None or r.get(h) is None else r.get(h)) for h in head]
            if remark_key and remark_key in r:
                cells[-1] = r[remark_key]
            lines.append(["", *cells])
    return "".join(",".join(csv_field(c) for c in line) + "\n" for line in lines)


def xlsx_row(ws, r, values):
    """write row r (1-based); strings stay strings (a leading '=' must not become a formula); None = empty cell"""
    for c, v in enumerate(values, start=1):
        if v is None:
            continue
        cell = ws.cell(row=r, column=c)
        cell.value = v
        if isinstance(v, str) and cell.data_type != "s":
            cell.data_type = "s"


def xlsx_append(ws, values):
    n = getattr(ws, "_vf_rows", 0) + 1
    ws._vf_rows = n
    xlsx_row(ws, n, values)


def to_xlsx(form, typed=None) -> bytes:
    """typed: optional {(sheet, row_index, col): python value} overriding the text cell with a typed one"""
    from openpyxl import Workbook

    wb = Workbook()
    wb.remove(wb.active)
    for name, head, rows in sheets_of(form):
        ws = wb.create_sheet(title=name[:31])
        xlsx_append(ws, list(head))
        for i, r in enumerate(rows):
            xlsx_append(ws, [_typed(typed, name, i, h, r.get(h)) for h in head])
    buf = io.BytesIO()
    wb.save(buf)
    return buf.getvalue()


def to_xls(form, typed=None) -> bytes:
    sheets = []
    for name, head, rows in sheets_of(form):
        g = [list(head)]
        for i, r in enumerate(rows):
            g.append([_typed(typed, name, i, h, r.get(h)) for h in head])
        sheets.append((name[:31], g))
    return biff.ole2(biff.workbook(sheets))


def _typed(typed, sheet, i, col, v):
    if typed and (sheet, i, col) in typed:
        return typed[(sheet, i, col)]
    return v
