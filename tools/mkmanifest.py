#!/opt/veriftools/pyvenv/bin/python
"""Regenerate MANIFEST.json from the table below (one entry per built check)."""
import json, os, sys
HERE = os.path.dirname(os.path.dirname(os.path.abspath(__file__)))
sys.path.insert(0, HERE)
from tools.manifest_table import CHECKS, NOT_APPLICABLE  # noqa: E402

props = [json.loads(l) for l in open(os.path.join(HERE, "properties.jsonl"))]
ids = [p["id"] for p in props]
checks = []
for pid in ids:
    if pid not in CHECKS:
        continue
    c = CHECKS[pid]
    checks.append({
        "property_id": pid,
        "quick_cmd": f"./check {pid} --tier quick",
        "thorough_cmd": f"./check {pid} --tier thorough",
        "evidence_file": f"evidence/{pid}.json",
        "replay_cmd_template": f"./check {pid} --replay {{path}}",
        "engine": "vf",
        "level_claimed": {"category": c.get("level", "exploration"), "text": c["text"], "design_ref": c["design_ref"]},
        "level_note": c["note"],
        "technique": c["technique"],
    })
na = [{"property_id": pid, "reason": NOT_APPLICABLE.get(pid, "check not built yet in this revision of /verif (work in progress; see DESIGN.md section 11)")}
      for pid in ids if pid not in CHECKS]
m = {
    "version": 1,
    "setup_cmd": "./setup.sh",
    "hooks": {"guard": "PYXFORM_VERIF", "enable": "no source hooks are used; checks import pyxform from /repo's working tree (VERIF_REPO overrides the path)",
              "baseline_off_cmd": "cd /repo && /venv/bin/python -m pytest -ra -q -p no:cacheprovider --timeout=900 --continue-on-collection-errors",
              "source_commits": [], "add_only": True},
    "engines": [{"name": "vf", "path": "vf/", "serves_properties": [c["property_id"] for c in checks],
                 "kind_free_text": "property-based testing: Hypothesis-generated abstract XLSForms (plus bounded-exhaustive enumerations), real pyxform conversion, independent lxml reader + reference models / round trips / metamorphic relations as oracles, collect-then-ddmin shrinking, JSON replay files"}],
    "checks": checks,
    "notes": "All checks: ./check <ID> [--tier quick|thorough] [--replay FILE]; VERIF_SEED and VERIF_TIER honoured; exit 0 held / 1 VIOLATION / 2 harness error or inconclusive. Known findings: known_findings.json.",
}
if na:
    m["not_applicable"] = na
json.dump(m, open(os.path.join(HERE, "MANIFEST.json"), "w"), indent=1)
# validate against the schema
import jsonschema  # noqa: E402
jsonschema.validate(m, json.load(open("/root/.vp/MANIFEST.schema.json")))
print("MANIFEST.json written:", len(checks), "checks,", len(na), "not_applicable")
