#!/venv/bin/python
"""Print the fixed/open findings of known_findings.json as markdown tables."""
import json, os
HERE = os.path.dirname(os.path.dirname(os.path.abspath(__file__)))
d = json.load(open(os.path.join(HERE, "known_findings.json")))
fixed = [f for f in d["findings"] if f["status"] == "fixed"]
print(f"{len(fixed)} fixed, {len([f for f in d['findings'] if f['status'] == 'open'])} open.\n")
print("| property | `/repo` commit | what failed | replay |")
print("|---|---|---|---|")
for f in sorted(fixed, key=lambda f: (f["property"], f["commit"])):
    what = f["line"].split(f["commit"], 1)[-1].strip().replace("|", "/")
    print(f"| {f['property']} | {f['commit']} | {what} | `{f.get('replay', '')}` |")
