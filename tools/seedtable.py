#!/venv/bin/python
"""Print the seeded-change detection table (markdown) from seeded/*/meta.json."""
import json
import os

HERE = os.path.dirname(os.path.dirname(os.path.abspath(__file__)))
SEEDED = os.path.join(HERE, "seeded")
rows = []
for sid in sorted(os.listdir(SEEDED)):
    mp = os.path.join(SEEDED, sid, "meta.json")
    if not os.path.exists(mp):
        continue
    m = json.load(open(mp))
    det = m.get("detected_by", {})
    caught = sorted(k for k, v in det.items() if isinstance(v, dict) and v.get("verdict") == "caught")
    missed = sorted(k for k, v in det.items() if isinstance(v, dict) and v.get("verdict") == "missed")
    first = ""
    for k in caught:
        first = det[k].get("first", "")
        first = first.split("signature=")[-1].split(" hits=")[0] if "signature=" in first else ""
        break
    needs = " ".join(m.get("needs", "").split())
    site = needs[:130]
    at = (m.get("at_head") or {}).get("status", "live").split(":")[0]
    rows.append((sid, site, at, ", ".join(caught) or "—", ", ".join(missed) or "—", first[:70]))
print("| seeded change | what was changed (from its note) | at HEAD | caught by (quick tier) | missed by | first signature |")
print("|---|---|---|---|---|---|")
for r in rows:
    print("| " + " | ".join(x.replace("|", "/") for x in r) + " |")
