"""Independent XForm reader: parses ConvertResult.xform with lxml/libxml2."""

from __future__ import annotations

import re

from lxml import etree

XF = "http://www.w3.org/2002/xforms"
H = "http://www.w3.org/1999/xhtml"
JR = "http://openrosa.org/javarosa"
ODK = "http://www.opendatakit.org/xforms"
ORX = "http://openrosa.org/xforms"
ENT = "http://www.opendatakit.org/xforms/entities"
EV = "http://www.w3.org/2001/xml-events"
NS = {"x": XF, "h": H, "jr": JR, "odk": ODK, "orx": ORX, "ent": ENT}

STD_PREFIX = {XF: "", H: "h", JR: "jr", ODK: "odk", ORX: "orx", ENT: "entities", EV: "ev",
              "http://www.w3.org/2001/XMLSchema": "xsd"}


def q(ns, local):
    return f"{{{ns}}}{local}"


class IllFormed(Exception):
    pass


def parse(xml: str):
    """Parse with libxml2 in namespace mode; any error (incl. unbound prefix) raises."""
    try:
        data = xml.encode("utf-8")
    except UnicodeEncodeError as e:
        raise IllFormed(f"not encodable as UTF-8: {e}") from e
    parser = etree.XMLParser(resolve_entities=False, no_network=True, recover=False, huge_tree=True,
                             remove_blank_text=False)
    try:
        root = etree.fromstring(data, parser)
    except etree.XMLSyntaxError as e:
        raise IllFormed(str(e)) from e
    # libxml2 reports namespace errors as recoverable errors in the log: treat as fatal
    for entry in parser.error_log:
        if entry.level_name == "WARNING":
            continue        # e.g. a relative namespace URI: deprecated, not an error
        raise IllFormed(f"{entry.type_name}: {entry.message}")
    return root


def local(el):
    return etree.QName(el).localname


def ns_of(el):
    return etree.QName(el).namespace


def elems(el):
    return [c for c in el if isinstance(c.tag, str)]


def attr_name(qname: str) -> str:
    """'{ns}local' -> 'prefix:local' using the standard prefixes (for comparing with pyxform's spelling)."""
    if qname.startswith("{"):
        ns, loc = qname[1:].split("}")
        p = STD_PREFIX.get(ns)
        if p is None:
            return qname
        return f"{p}:{loc}" if p else loc
    return qname


def attrs(el):
    return {attr_name(k): v for k, v in el.attrib.items()}


class XFormView:
    """Structured view over a parsed XForm."""

    def __init__(self, xml: str):
        self.xml = xml
        self.root = parse(xml)
        r = self.root
        self.head = r.find(q(H, "head"))
        self.body = r.find(q(H, "body"))
        self.model = self.head.find(q(XF, "model")) if self.head is not None else None
        self.title = self.head.find(q(H, "title")) if self.head is not None else None
        m = self.model
        self.instances = [e for e in elems(m) if e.tag == q(XF, "instance")] if m is not None else []
        self.primary = None
        if self.instances:
            kids = elems(self.instances[0])
            if len(kids) == 1:
                self.primary = kids[0]
        self.binds = [e for e in elems(m) if e.tag == q(XF, "bind")] if m is not None else []
        self.itext = m.find(q(XF, "itext")) if m is not None else None
        self.submission = m.find(q(XF, "submission")) if m is not None else None

    # -- instance -------------------------------------------------------------
    def live_instance(self):
        """Deep copy of the primary instance with jr:template subtrees removed."""
        import copy

        inst = copy.deepcopy(self.primary)
        for t in inst.xpath(".//*[@jr:template]", namespaces=NS):
            t.getparent().remove(t)
        return inst

    def secondary(self):
        return {e.get("id"): e for e in self.instances[1:]}

    def bind_map(self):
        out = {}
        for b in self.binds:
            out.setdefault(b.get("nodeset"), []).append(b)
        return out

    def translations(self):
        """lang -> {text id -> [(form, value element)]}; also list of (lang, default) in order."""
        out = {}
        order = []
        if self.itext is None:
            return out, order
        for tr in elems(self.itext):
            lang = tr.get("lang")
            order.append((lang, tr.get("default")))
            d = out.setdefault(lang, {})
            for t in elems(tr):
                d.setdefault(t.get("id"), []).append(t)
        return out, order


def resolve(inst_root, path: str, context=None):
    """Resolve a simple location path over the (template-free) instance.

    Supports /a/b, ../x, ./x, x, current()/../x, trailing /@attr steps.
    Returns list of matched nodes; an attribute step returns [(node, attrname)].
    `context` is an element of inst_root (for relative paths).
    """
    p = path.strip()
    if p.startswith("current()/"):
        p = p[len("current()/"):]
    elif p == "current()":
        p = "."
    if p.startswith("/"):
        parts = p[1:].split("/")
        if not parts or local(inst_root) != parts[0]:
            return []
        cur = [inst_root]
        parts = parts[1:]
    else:
        if context is None:
            return []
        cur = [context]
        parts = p.split("/")
    for i, step in enumerate(parts):
        if step == "" or step == ".":
            continue
        if step == "..":
            cur = [c.getparent() for c in cur if c.getparent() is not None]
            continue
        if step.startswith("@"):
            name = step[1:].split(":")[-1]
            if i != len(parts) - 1:
                return []
            return [(c, name) for c in cur if any(etree.QName(a).localname == name for a in c.attrib)]
        cur = [ch for c in cur for ch in elems(c) if local(ch) == step]
    return cur


def node_path(el):
    """absolute path of an instance element"""
    parts = []
    while el is not None and isinstance(el.tag, str):
        parts.append(local(el))
        el = el.getparent()
        if el is not None and el.tag == q(XF, "instance"):
            break
    return "/" + "/".join(reversed(parts))


# ------------------------------------------------------------ canonical trees


def canon(el, strip_ws=True):
    """Comparable tree: (tag, sorted attrs, texts|None, children).

    Inter-element whitespace is dropped only where an element has element
    children and no non-blank text at all.
    """
    kids = elems(el)
    texts = [el.text or ""] + [(c.tail or "") for c in kids]
    # comments / PIs would be lost here; pyxform emits none
    if kids and strip_ws and all(not t.strip() for t in texts) and not all(local(c) == "output" for c in kids):
        # (a label, hint or value made of <output/> elements only is text: white space between them is shown to the user)
        texts = None
    return (el.tag, tuple(sorted(el.attrib.items())), tuple(texts) if texts is not None else None,
            tuple(canon(c, strip_ws) for c in kids))


def skeleton(el):
    """element/attribute-name tree only (no values, no text)."""
    return (el.tag, tuple(sorted(el.attrib)), tuple(skeleton(c) for c in elems(el)))


def canon_diff(a, b, path=""):
    """first difference between two canon() trees, as a short string (or None)."""
    if a[0] != b[0]:
        return f"{path}: tag {a[0]} != {b[0]}"
    here = f"{path}/{a[0].split('}')[-1]}"
    if a[1] != b[1]:
        da, db = dict(a[1]), dict(b[1])
        for k in sorted(set(da) | set(db)):
            if da.get(k) != db.get(k):
                return f"{here}: attr {attr_name(k)}: {da.get(k)!r} != {db.get(k)!r}"
    if a[2] != b[2]:
        return f"{here}: text {a[2]!r} != {b[2]!r}"
    if len(a[3]) != len(b[3]):
        return f"{here}: child count {len(a[3])} != {len(b[3])} ({[c[0].split('}')[-1] for c in a[3]]} vs {[c[0].split('}')[-1] for c in b[3]]})"
    for x, y in zip(a[3], b[3]):
        d = canon_diff(x, y, here)
        if d:
            return d
    return None


def text_content(el):
    """Concatenated text with <output value=X/> rendered as ${{X}} markers -> list of parts."""
    parts = []
    if el.text:
        parts.append(("t", el.text))
    for c in elems(el):
        if local(c) == "output":
            parts.append(("o", c.get("value")))
        else:
            parts.append(("e", local(c)))
        if c.tail:
            parts.append(("t", c.tail))
    return parts


ITEXT_RE = re.compile(r"^jr:itext\('(.*)'\)$")


def itext_id(ref):
    m = ITEXT_RE.match(ref or "")
    return m.group(1) if m else None
