"""C01 -- every successful conversion returns a well-formed, namespace-valid XForm with the ODK skeleton."""

from __future__ import annotations

import re

from hypothesis import strategies as st

from vf import common, gen, model, xform
from vf.runner import Outcome, crash_sig
from vf.xform import H, XF, q

ID = "C01"
LEVEL = "exploration"
RULE = ("Hypothesis-generated abstract forms (broad profile: all question types, nesting <=3, 0-3 languages, settings incl. "
        "namespaces/attribute::, adversarial text in every text cell) x pretty_print in {False, True}, dict container; "
        "a case is non-trivial when the form is accepted, has >=1 group/repeat and >=1 cell with an XML metacharacter "
        "or a custom namespace/attribute; distinct by SHA-1 of the case JSON")
ASSUMPTIONS = ["libxml2 (lxml) in namespace mode is the arbiter of well-formedness",
               "inputs are dict workbooks rendered from the abstract form (containers are exercised by C12)"]
BUDGET = {"quick": 9000, "thorough": 300000}

META = re.compile(r"[<>&\"']")


EDGE_CHARS = ["\x01", "\x0b", "\x1f", "\ufffe", "\uffff", "\x00", "\x08", "\x0c"]
EDGE_HEADERS = ["bind::1x", "bind::a b", "body::", "body::x y", "instance::9", "bind::foo:bar", "body::zz:q", "instance::nope:x", "bind::a:b:c",
                "bind:::foo", "body:::foo", "instance:::foo", "body::tag", "body::xmlns:q", "bind::xml:lang", "instance::xmlns", "body::ref", "bind::nodeset", "bind::xmlns:xml", "body::xmlns:xmlns", "instance::xmlns:zz"]
EDGE_SETTINGS = ["attribute::xmlns:xml", "attribute", "attribute::p:q", "attribute::1a", "attribute::a b", "attribute::und:x", "attribute:::foo", "attribute::xmlns:zz", "attribute::xmlns"]
EDGE_NAMESPACES = ["foo=", 'foo=""', 'ok="http://ok.example" bad=', "=http://x", 'a="http://a" a="http://b"', 'xmlns="http://example.com/x"',
                   'xml="http://example.com/x"', 'foo="http://www.w3.org/2000/xmlns/"', 'foo="http://www.w3.org/XML/1998/namespace"',
                   'q="http://example.org/ns?version=1"', 'a="http://a.example/<b>"', 'a="http://a.example/&amp;"', "1a=http://x.example", "a:b=http://x.example"]
EDGE_NAMES = ["foo:q1", "und:x", "odk:q", "jr:n", "a:b", "xmlns:foo", "xml:foo", "h:html", "orx:meta", ":x", "x:", "a\n", "L×l", "m÷2", "a·b", "x‿y", "q·", "̀a", "a‿"]


@st.composite
def _cases(draw):
    P = dict(gen.PROFILES["broad"], settings="some", p_attr_override=0.08, p_tag_names=0.04, p_osm=0.03)
    g = gen.G(draw, P)
    form = gen.build_form(draw, P, g=g)
    if form.get("lists") and g.p("_", 0.1):
        # choices columns that cannot be element names (warned about and dropped): values in every list, not only the first
        cols = g.shuffled(["my note", "2nd", "a b c", "per cent%", "x:y:z", "e1::x"])[: g.integer(1, 3)]
        for lst in form["lists"]:
            for r_ in lst["rows"]:
                for cname in cols:
                    if g.p("_", 0.6):
                        r_[cname] = "v"
    edge = None
    if g.p("_", 0.14):
        # edge probes: inputs a user can type that XML cannot carry as they are; the outcome must be a well-formed result or a rejection
        qs = [n for n, _ in model.walk(form["nodes"]) if n["k"] == "q" and n["c"].get("type", "").split(" ")[0] in ("text", "integer", "note", "select_one")]
        kind = g.pick(["char", "header", "setting", "namespaces", "name", "instance-xmlns", "root-name", "same-namespace-twice"])
        if kind == "char" and qs:
            n = g.pick(qs)
            cols = [k for k in n["c"] if k.split("::")[0] in ("label", "hint", "constraint_message", "default")] or ["label"]
            col = g.pick(cols)
            n["c"][col] = (n["c"].get(col) or "t") + g.pick(EDGE_CHARS) + "z"
            edge = "illegal-char"
        elif kind == "instance-xmlns":
            form.setdefault("settings", {})["instance_xmlns"] = g.pick(["http://www.w3.org/XML/1998/namespace", "http://www.w3.org/2000/xmlns/", "http://a.example/100%",
                                                                       "http://a.example/ns[1]", "http://a.example:port/", "http://a.example/#a#b", "http://a.example/é",
                                                                       "http://ok.example/x?y=1&z=%20", "urn:x:y"])
            edge = "instance-xmlns"
        elif kind == "namespaces":
            form.setdefault("settings", {})["namespaces"] = g.pick(EDGE_NAMESPACES)
            edge = "namespaces-setting"
        elif kind == "same-namespace-twice" and qs:
            # two prefixes declared with one namespace name (legal), or an author's prefix for a namespace the converter declares itself;
            # attributes that differ only in such prefixes are the same attribute
            uri, p2 = g.pick([("http://x.example/n", "bb"), ("http://www.opendatakit.org/xforms", "odk"), ("http://openrosa.org/javarosa", "jr"), ("http://x.example/n", "bb")])
            form.setdefault("settings", {})["namespaces"] = f'aa="{uri}"' + (f' bb="{uri}"' if p2 == "bb" else "")
            n = g.pick(qs)
            sheet = g.pick(["bind", "body", "instance"]) if n["c"].get("label") else "bind"
            loc = g.pick(["foo", "foo", "x1"])
            n["c"][f"{sheet}::aa:{loc}"] = "1"
            n["c"][f"{sheet}::{p2}:{loc if g.p('_', 0.8) else 'other'}"] = "2"
            edge = "same-namespace-twice"
        elif kind == "name" and qs:
            n = g.pick(qs)
            if not common.all_strings and False:
                pass
            old = n["c"]["name"]
            if not any(("${%s}" % old) in s_ or ("#%s}" % old) in s_ for s_ in common.all_strings(form)):
                n["c"]["name"] = g.pick(EDGE_NAMES)
                edge = "prefixed-name"
        elif kind == "root-name":
            # the form's own name becomes the root element of the primary instance: the same rules as for a question's name
            nm = g.pick(EDGE_NAMES + [":data", "ex:", "ex:data", "aa:b:c", "1data", "my data"])
            if g.p("_", 0.5):
                form.setdefault("settings", {})["name"] = nm
            else:
                form.setdefault("args", {})["form_name"] = nm
            if ":" in nm and g.p("_", 0.6):
                pre = nm.split(":")[0] or "ex"
                form.setdefault("settings", {})["namespaces"] = f'{pre}="http://example.com/{pre}"'
            edge = "root-name"
        elif kind == "header" and qs:
            # (attribute columns named like the keys that hold a control's element name or generated paths: a third of the header probes)
            g.pick(qs)["c"][g.pick(["body::tag", "body::ref", "bind::nodeset", "body::nodeset"]) if g.p("_", 0.3) else g.pick(EDGE_HEADERS)] = g.pick(["v", "my tag", "1st", "a<b", "select1", "http://www.w3.org/XML/1998/namespace", "http://x.example/100%"])
            edge = "attribute-header"
        else:
            form.setdefault("settings", {})[g.pick(EDGE_SETTINGS)] = "v"
            edge = "attribute-setting"
    c = {"form": form, "pretty": g.p("_", 0.5)}
    if edge:
        c["edge"] = edge
    return c


def strategy(tier):
    return _cases()


def expected_form_id(form):
    s = {"_".join(k.split()).lower(): v for k, v in form.get("settings", {}).items()}      # headers match in any case / spacing
    return s.get("form_id") or s.get("id_string") or "data"


def error_kind(msg: str) -> str:
    m = re.sub(r"line \d+, column \d+.*", "", msg)
    m = re.sub(r"\d+", "N", m)
    m = re.sub(r"prefix \S+ (for \S+ )?on \S+", "prefix P on E", m)
    m = re.sub(r"attribute \S+", "attribute A", m)
    m = re.sub(r"[:,]?\s*$", "", m)
    return m[:60]


def input_cause(form) -> str:
    causes = []
    strs = list(common.all_strings(form))
    if any(common.XML_ILLEGAL_RE.search(s) for s in strs):
        causes.append("illegal-char-in-input")
    return "+".join(causes) or "-"


def check_xform(out: Outcome, xml: str, form, mode: str):
    """C01 validity predicate over one output string; returns the XFormView or None"""
    out.checked("C01.wellformed")
    try:
        v = xform.XFormView(xml)
    except xform.IllFormed as e:
        out.fail("C01.wellformed", f"{error_kind(str(e))}|{input_cause(form)}", f"[{mode}] {e}")
        return None
    out.checked("C01.prolog")
    if not xml.startswith('<?xml version="1.0"?>'):
        out.fail("C01.prolog", "", f"[{mode}] starts with {xml[:40]!r}")
    out.checked("C01.skeleton")
    r = v.root
    if r.tag != q(H, "html"):
        out.fail("C01.skeleton", "root", f"[{mode}] root is {r.tag}")
        return v
    heads = [e for e in xform.elems(r) if e.tag == q(H, "head")]
    bodies = [e for e in xform.elems(r) if e.tag == q(H, "body")]
    if len(heads) != 1 or len(bodies) != 1 or len(xform.elems(r)) != 2:
        out.fail("C01.skeleton", "head-body", f"[{mode}] children of html: {[e.tag for e in xform.elems(r)]}")
        return v
    titles = [e for e in xform.elems(heads[0]) if e.tag == q(H, "title")]
    models = [e for e in xform.elems(heads[0]) if e.tag == q(XF, "model")]
    if len(titles) != 1 or len(models) != 1:
        out.fail("C01.skeleton", "title-model", f"[{mode}] {len(titles)} titles, {len(models)} models")
        return v
    insts = [e for e in xform.elems(models[0]) if e.tag == q(XF, "instance")]
    if not insts:
        out.fail("C01.skeleton", "no-instance", f"[{mode}] model has no instance")
        return v
    first = insts[0]
    if first.get("id") is not None or first.get("src") is not None:
        out.fail("C01.skeleton", "first-instance-not-primary", f"[{mode}] first instance has id/src")
    kids = xform.elems(first)
    if len(kids) != 1:
        out.fail("C01.skeleton", "primary-root-count", f"[{mode}] primary instance has {len(kids)} roots")
        return v
    want = expected_form_id(form)
    if kids[0].get("id") != want:
        out.fail("C01.skeleton", "form-id", f"[{mode}] primary root id={kids[0].get('id')!r}, expected {want!r}")
    return v


def evaluate(case) -> Outcome:
    out = Outcome()
    form = case["form"]
    pretty = bool(case.get("pretty"))
    status, res = common.run_form(form, pretty=pretty)
    if status == "crash":
        # not this property's business (C17 owns crashes); recorded as a label only
        out.label("outcome:crash:" + crash_sig(res))
        return out
    if status == "rejected":
        if case.get("edge"):
            out.label("edge:" + case["edge"] + ":rejected")
        out.label("outcome:rejected:" + common.err_class(res))
        return out
    if case.get("edge"):
        out.label("edge:" + case["edge"] + ":accepted")
    out.label("outcome:accepted", "pretty" if pretty else "compact")
    check_xform(out, res.xform, form, "pretty" if pretty else "compact")
    has_container = any(n["k"] in ("g", "r") for n, _ in model.walk(form["nodes"]))
    cells = [v for n, _ in model.walk(form["nodes"]) for v in n["c"].values()]
    cells += list(form.get("settings", {}).values())
    special = any(META.search(c) for c in cells) or any(k.startswith(("attribute::", "namespaces")) for k in form.get("settings", {}))
    out.nontrivial = has_container and special
    if has_container:
        out.label("has-container")
    if form.get("_langs"):
        out.label(f"langs:{len(form['_langs'])}")
    return out
